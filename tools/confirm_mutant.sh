#!/bin/bash
# Confirm a breaking change in a scratch worktree: demo passes on clean HEAD, change applies and builds, the
# repository's tests still pass (only TestOps may fail), demo fails with the change.
#   tools/confirm_mutant.sh <worktree> <patch.diff> <demo file> <dest path of demo in worktree> <go test args...>
set -u
export GOFLAGS=-mod=mod GOPROXY=off GOSUMDB=off GOTOOLCHAIN=local
WT="$1"; PATCH="$(realpath "$2")"; DEMO="$(realpath "$3")"; DEST="$4"; shift 4
cd "$WT" || exit 2
clean() { git checkout -q -- . ; git clean -fdq -e _out; }
clean
mkdir -p "$(dirname "$DEST")"; cp "$DEMO" "$DEST"
if go test -count=1 "$@" > /tmp/confirm.out 2>&1; then echo "demo on clean HEAD: PASS (expected)"; else echo "demo on clean HEAD: FAIL (unexpected)"; tail -5 /tmp/confirm.out; fi
clean
git apply "$PATCH" || { echo "patch does not apply"; exit 2; }
go build ./... && echo "build: ok" || echo "build: FAILED"
bad="$(go test -count=1 ./... 2>&1 | grep -E '^--- FAIL' | grep -v 'TestOps ')"
[ -z "$bad" ] && echo "existing tests: pass (TestOps aside)" || { echo "existing tests: FAIL"; echo "$bad"; }
cp "$DEMO" "$DEST"
if go test -count=1 "$@" > /tmp/confirm.out 2>&1; then echo "demo with change: PASS (unexpected)"; else echo "demo with change: FAIL (expected)"; grep -E "^(---|\s+\S+_test.go|panic)" /tmp/confirm.out | head -4; fi
clean
