#!/bin/bash
# Development aid: apply a breaking change to /repo, confirm it compiles and passes the repository's own
# tests, run the named checks (quick tier, short budget) against it, and undo it straight afterwards.
#   tools/try_mutant.sh <patch.diff> <budget e.g. 20s> <prop> [<prop> ...]
set -u
export GOFLAGS=-mod=mod GOPROXY=off GOSUMDB=off GOTOOLCHAIN=local
PATCH="$(realpath "$1")"; BUDGET="$2"; shift 2
VERIF="$(cd "$(dirname "$0")/.." && pwd)"
cd /repo || exit 2
[ -z "$(git status --porcelain)" ] || { echo "/repo is not clean"; exit 2; }
git apply "$PATCH" || { echo "patch does not apply"; exit 2; }
trap 'git -C /repo checkout -- . ; git -C /repo clean -fdq' EXIT
go build ./... || { echo "MUTANT DOES NOT BUILD"; exit 3; }
fails="$(go test -count=1 ./... 2>&1 | grep -E '^(--- FAIL|FAIL|panic)' | grep -v 'TestOps' | grep -v '^FAIL$' | grep -v 'FAIL	github.com/advancedclimatesystems/gonnx	' )"
if [ -n "$fails" ]; then echo "MUTANT FAILS EXISTING TESTS:"; echo "$fails"; fi
for p in "$@"; do
  out="$(cd "$VERIF" && VERIF_BUDGET="$BUDGET" VERIF_NO_EVIDENCE=1 ./check.sh "$p" quick 2>&1)"; rc=$?
  echo "== $p rc=$rc"
  echo "$out" | grep -E "^(VIOLATION|violation:|summary|HARNESS|KNOWN)" | cut -c1-220 | head -12
done
