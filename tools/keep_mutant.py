#!/usr/bin/env python3
"""Store a confirmed breaking change under /verif/seeded/<id>/ (patch.diff, demo, notes, meta.json)."""
import json, shutil, sys, os
mid, prop, patch, demo, notes, needs, demo_cmd, caught_by, ran = sys.argv[1:10]
d = f"/verif/seeded/{mid}"
os.makedirs(d, exist_ok=True)
shutil.copy(patch, f"{d}/patch.diff")
shutil.copy(demo, f"{d}/{os.path.basename(demo)}")
if notes and os.path.exists(notes):
    shutil.copy(notes, f"{d}/notes.md")
meta = {"id": mid, "breaks_property": prop, "needs_to_manifest": needs,
        "demonstration": {"file": os.path.basename(demo), "command": demo_cmd,
                          "confirmed": "passes on the unchanged HEAD, fails with patch.diff applied; go build ok; existing tests pass (TestOps aside)"},
        "checks_run": ran, "caught_by": caught_by.split(",") if caught_by else [],
        "source": "independent sub-agent given only the property text" }
json.dump(meta, open(f"{d}/meta.json", "w"), indent=1)
print("kept", d)
