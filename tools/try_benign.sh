#!/bin/bash
# Run behaviour-preserving changes through every check: all must exit 0 (no false alarm).
#   tools/try_benign.sh <budget> <diff> [<diff> ...]
set -u
export GOFLAGS=-mod=mod GOPROXY=off GOSUMDB=off GOTOOLCHAIN=local
VERIF="$(cd "$(dirname "$0")/.." && pwd)"
BUDGET="$1"; shift
WT="$(mktemp -d /tmp/benign-wt.XXXX)"; rmdir "$WT"
git -C /repo worktree add -q "$WT" HEAD || exit 2
trap 'git -C /repo worktree remove --force "$WT"; git -C /repo worktree prune' EXIT
bad=0
for d0 in "$@"; do d="$(realpath "$d0")"
  git -C "$WT" checkout -q -- . && git -C "$WT" clean -fdq
  git -C "$WT" apply "$d" || { echo "$d: DOES NOT APPLY"; continue; }
  (cd "$WT" && go build ./... ) || { echo "$d: DOES NOT BUILD"; continue; }
  for p in C02 C06 C12 C17 C18; do
    out="$(cd "$VERIF" && VERIF_REPO="$WT" VERIF_BUDGET="$BUDGET" VERIF_NO_EVIDENCE=1 ./check.sh "$p" quick 2>&1)"; rc=$?
    if [ $rc -eq 0 ]; then echo "$d  $p  quiet"; else echo "$d  $p  ALARM rc=$rc: $(echo "$out" | grep -m2 -E '^(violation:|HARNESS|NOT-)' | cut -c1-200 | tr '\n' ' ')"; bad=1; fi
  done
done
exit $bad
