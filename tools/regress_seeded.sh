#!/bin/bash
# Re-run every kept breaking change against the checks that are recorded as catching it (quick tier, short
# budget), in a scratch worktree so /repo is never touched. Prints one line per (change, check).
#   tools/regress_seeded.sh [budget, default 25s] [id-prefix filter]
set -u
export GOFLAGS=-mod=mod GOPROXY=off GOSUMDB=off GOTOOLCHAIN=local VERIF_FAST=1
VERIF="$(cd "$(dirname "$0")/.." && pwd)"
BUDGET="${1:-25s}"; FILTER="${2:-}"
WT="$(mktemp -d /tmp/regress-wt.XXXX)"; rmdir "$WT"
git -C /repo worktree add -q "$WT" HEAD || exit 2
trap 'git -C /repo worktree remove --force "$WT"; git -C /repo worktree prune' EXIT
miss=0
for d in "$VERIF"/seeded/${FILTER}*/; do
  id="$(basename "$d")"
  checks="$(python3 -c 'import json,sys; print(" ".join(json.load(open(sys.argv[1]))["caught_by"]))' "$d/meta.json")"
  git -C "$WT" checkout -q -- . && git -C "$WT" clean -fdq
  git -C "$WT" apply "$d/patch.diff" || { echo "$id: PATCH DOES NOT APPLY (HEAD moved?)"; miss=1; continue; }
  for p in $checks; do
    out="$(cd "$VERIF" && VERIF_REPO="$WT" VERIF_BUDGET="$BUDGET" VERIF_NO_EVIDENCE=1 VERIF_SCRATCH=/var/tmp ./check.sh "$p" quick 2>&1)"; rc=$?
    sig="$(echo "$out" | grep -m1 '^violation:' | cut -c1-100)"
    if [ $rc -eq 1 ]; then echo "$id  $p  CAUGHT  $sig"; else echo "$id  $p  MISSED rc=$rc"; miss=1; fi
  done
done
exit $miss
