#!/bin/bash
# Determinism self-test of the call simulator (C17 engine): the event-log digest of run i must be the same
# in a batch, alone in a fresh process, and under GOMAXPROCS 1, 4 and 16. Called by check.sh with the
# freshly built (instrumented) simcheck binary.  usage: selftest.sh <simcheck> <repo copy> <nruns> <seed>
set -u
BIN="$1"; REPO="$2"; N="${3:-40}"; SEED="${4:-1}"
D="$(mktemp -d "$(dirname "$BIN")/selftest.XXXX")"
fail=0
# digest uses -w as start index and -workers as count
for gmp in 1 4 16; do
  for rep in a b; do
    GOMAXPROCS=$gmp "$BIN" digest -seed "$SEED" -w 0 -workers "$N" -repo "$REPO" > "$D/batch-$gmp-$rep.txt" || { echo "HARNESS-TROUBLE: digest run failed"; exit 2; }
  done
done
# fresh process per run, 8 at a time
seq 0 $((N-1)) | xargs -P 8 -I{} sh -c "GOMAXPROCS=\$(( ({} % 3) * 7 + 2 )) '$BIN' digest -seed '$SEED' -w {} -workers 1 -repo '$REPO' > '$D/fresh-{}.txt'" || { echo "HARNESS-TROUBLE: fresh digest run failed"; exit 2; }
for i in $(seq 0 $((N-1))); do cat "$D/fresh-$i.txt"; done > "$D/fresh.txt"
ref="$D/batch-1-a.txt"
for f in "$D"/batch-*.txt "$D/fresh.txt"; do
  if ! cmp -s "$ref" "$f"; then
    echo "NON-DETERMINISM: $f differs from $ref"; diff "$ref" "$f" | head -5; fail=1
  fi
done
lines=$(wc -l < "$ref")
if [ "$fail" = 0 ]; then echo "determinism self-test ok: $lines runs x (3 GOMAXPROCS values x 2 batch executions + 1 fresh process per run) identical digests (seed $SEED)"; fi
rm -rf "$D"
exit $fail
