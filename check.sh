#!/bin/bash
# Entry point of every check.
#   ./check.sh <property> quick|thorough     run the check against /repo's current working tree
#   ./check.sh --replay <replay.json>        re-execute a recorded violation in a fresh process
#   ./check.sh setup                         warm the build cache (offline)
# Exit codes: 0 held / only known findings, 1 VIOLATION, 2 harness or build trouble.
set -u
export GOFLAGS=-mod=mod GOPROXY=off GOSUMDB=off GOTOOLCHAIN=local CGO_ENABLED=0
VERIF="$(cd "$(dirname "$0")" && pwd)"
REPO="${VERIF_REPO:-/repo}"
SEED="${VERIF_SEED:-1}"
WORKERS="${VERIF_WORKERS:-16}"
BASE="${VERIF_SCRATCH:-/var/tmp}"
mkdir -p "$BASE" "$VERIF/evidence" "$VERIF/replays"
SCR="$(mktemp -d "$BASE/verif.XXXXXX")" || exit 2
trap 'rm -rf "$SCR"' EXIT

TENSOR_FILES="ap.go,dense.go,dense_matop.go,dense_linalg.go,defaultengine_linalg.go,api_matop.go"
usage() { echo "usage: $0 <C02|C06|C12|C17|C18> quick|thorough | --replay <file> | setup" >&2; exit 2; }
[ $# -ge 1 ] || usage

# build <instrument:0|1>: copy the working tree, add the hook package, optionally instrument, build the harness
build() {
  local instr="$1"
  rsync -a --exclude .git "$REPO"/ "$SCR/repo/" || { echo "HARNESS-TROUBLE: cannot copy $REPO" >&2; exit 2; }
  mkdir -p "$SCR/repo/verifsim"
  cp "$VERIF/instrument/verifsim.go.txt" "$SCR/repo/verifsim/verifsim.go"
  # the clock seam: reads of the wall clock in the tree's non-test code go through the simulated clock (none at the
  # pinned commit: then no file changes)
  (cd "$VERIF/instrument" && go build -trimpath -o "$SCR/seams" ./seams) || { echo "HARNESS-TROUBLE: seam rewriter does not build" >&2; exit 2; }
  MODPATH="$(cd "$SCR/repo" && go list -m)" || { echo "HARNESS-TROUBLE: cannot read the module path of $REPO" >&2; exit 2; }
  "$SCR/seams" "$SCR/repo" "$MODPATH" || { echo "HARNESS-TROUBLE: clock seam rewriting failed" >&2; exit 2; }
  # the process-environment seam: every environment variable the tree's non-test code reads by name (none at the
  # pinned commit); the simulators set a seeded subset around a share of their cases
  VERIF_ENVNAMES="$( {
      grep -rhoE --include='*.go' --exclude='*_test.go' '(Getenv|LookupEnv)\("[A-Za-z_][A-Za-z0-9_]*"\)' "$SCR/repo" 2>/dev/null | sed -E 's/.*\("([^"]+)"\)/\1/'
      # ... and named string constants / variables passed instead of a literal
      for id in $(grep -rhoE --include='*.go' --exclude='*_test.go' '(Getenv|LookupEnv)\([A-Za-z_][A-Za-z0-9_.]*\)' "$SCR/repo" 2>/dev/null | sed -E 's/.*\(([A-Za-z0-9_.]*\.)?([A-Za-z_][A-Za-z0-9_]*)\)/\2/' | sort -u); do
        grep -rhoE --include='*.go' --exclude='*_test.go' "\\b$id[[:space:]]*(string[[:space:]]*)?=[[:space:]]*\"[A-Za-z_][A-Za-z0-9_]*\"" "$SCR/repo" 2>/dev/null | sed -E 's/.*"([^"]+)"/\1/'
      done
    } | sort -u | paste -sd, - )"
  export VERIF_ENVNAMES
  if [ "$instr" = 1 ]; then
    cp -a "$SCR/repo" "$SCR/repo-plain"
    (cd "$VERIF/instrument" && go build -trimpath -o "$SCR/instrument" .) || { echo "HARNESS-TROUBLE: instrumenter does not build" >&2; exit 2; }
    # a writable copy of gorgonia's tensor module, wired in by a replace directive: the files that manipulate
    # tensor headers (shape, strides, transposition, views) and the linear-algebra front end get yield points too
    TDIR="$(cd "$SCR/repo" && go list -m -f '{{.Dir}}' gorgonia.org/tensor)" || { echo "HARNESS-TROUBLE: cannot locate gorgonia.org/tensor" >&2; exit 2; }
    cp -r "$TDIR" "$SCR/tensor" && chmod -R u+w "$SCR/tensor"
    printf '\nreplace gorgonia.org/tensor => %s\n' "$SCR/tensor" >> "$SCR/repo/go.mod"
    "$SCR/instrument" "$SCR/repo" gorgonia.org/tensor "$TENSOR_FILES" > "$SCR/instrument.log" 2>&1 || { cat "$SCR/instrument.log" >&2; echo "HARNESS-TROUBLE: instrumentation failed" >&2; exit 2; }
    tail -n 1 "$SCR/instrument.log"
  fi
  sed "s|=> /repo|=> $SCR/repo|" "$VERIF/sim/go.mod" > "$SCR/go.mod"
  [ "$instr" = 1 ] && printf '\nreplace gorgonia.org/tensor => %s\n' "$SCR/tensor" >> "$SCR/go.mod"
  cp "$SCR/repo/go.sum" "$SCR/go.sum"
  (cd "$VERIF/sim" && go build -trimpath -modfile="$SCR/go.mod" -tags verif -o "$SCR/simcheck" ./cmd/simcheck) \
    || { echo "HARNESS-TROUBLE: build against $REPO failed (property not decided)" >&2; exit 2; }
  if [ "$instr" = 1 ]; then
    # auxiliary race tier of C17: the same harness, built with -race against an UN-instrumented copy
    sed "s|=> /repo|=> $SCR/repo-plain|" "$VERIF/sim/go.mod" > "$SCR/go-plain.mod"
    cp "$SCR/repo-plain/go.sum" "$SCR/go-plain.sum"
    (cd "$VERIF/sim" && CGO_ENABLED=1 go build -race -trimpath -modfile="$SCR/go-plain.mod" -tags verif -o "$SCR/simcheck-race" ./cmd/simcheck) \
      || { echo "HARNESS-TROUBLE: -race build against $REPO failed" >&2; exit 2; }
  fi
}

case "$1" in
  setup)
    build 1
    echo "setup ok"
    exit 0 ;;
  selftest)
    build 1
    "$VERIF/selftest.sh" "$SCR/simcheck" "$SCR/repo" "${2:-40}" "$SEED" || { echo "HARNESS-TROUBLE: simulator is not deterministic" >&2; exit 2; }
    exit 0 ;;
  --replay)
    [ $# -eq 2 ] || usage
    prop="$(python3 -c 'import json,sys; print(json.load(open(sys.argv[1]))["property"])' "$2")" || exit 2
    if [ "$prop" = C17 ]; then build 1; else build 0; fi
    rb=(); [ -x "$SCR/simcheck-race" ] && rb=(-racebin "$SCR/simcheck-race")
    "$SCR/simcheck" replay -file "$2" -verif "$VERIF" -repo "$SCR/repo" -scratch "$SCR" "${rb[@]}"
    exit $? ;;
  C02|C06|C12|C18|C17)
    [ $# -eq 2 ] || usage
    tier="$2"
    [ "$tier" = quick ] || [ "$tier" = thorough ] || usage
    if [ "$1" = C17 ]; then build 1; else build 0; fi
    rm -f "$VERIF"/replays/"$1"-*.json
    if [ "$1" = C17 ] && [ "$tier" = thorough ]; then
      "$VERIF/selftest.sh" "$SCR/simcheck" "$SCR/repo" 40 "$SEED" || { echo "HARNESS-TROUBLE: simulator is not deterministic" >&2; exit 2; }
    fi
    extra=()
    [ -n "${VERIF_BUDGET:-}" ] && extra+=(-budget "$VERIF_BUDGET")
    [ -n "${VERIF_NO_EVIDENCE:-}" ] && extra+=(-no-evidence)
    [ -x "$SCR/simcheck-race" ] && extra+=(-racebin "$SCR/simcheck-race")
    [ -n "${VERIF_RACE_BUDGET:-}" ] && extra+=(-race-budget "$VERIF_RACE_BUDGET")
    "$SCR/simcheck" run -prop "$1" -tier "$tier" -seed "$SEED" -workers "$WORKERS" -verif "$VERIF" -repo "$SCR/repo" -scratch "$SCR" "${extra[@]}"
    exit $? ;;
  *) usage ;;
esac
