// Command seams rewrites, in a scratch copy of the repository, every use of the wall clock in non-test code
// (time.Now, Since, Until, Sleep, AfterFunc, NewTimer, After, NewTicker, Tick and the types time.Timer / time.Ticker)
// into its simulated counterpart in package verifsim, and records how many such sites there are. Purely syntactic (go/parser); at the pinned commit there are none and no file changes.
//
//	seams <repo copy> <module path>
package main

import (
	"fmt"
	"go/ast"
	"go/parser"
	"go/token"
	"os"
	"path/filepath"
	"sort"
	"strconv"
	"strings"
)

// functions and types of package time that have a simulated counterpart in verifsim
var clockFuncs = map[string]bool{"Now": true, "Since": true, "Until": true, "Sleep": true,
	"AfterFunc": true, "NewTimer": true, "After": true, "NewTicker": true, "Tick": true, "Timer": true, "Ticker": true}

func main() {
	if len(os.Args) != 3 {
		fmt.Fprintln(os.Stderr, "usage: seams <repo copy> <module path>")
		os.Exit(2)
	}
	root, mod := os.Args[1], os.Args[2]
	total := 0
	var touched []string
	err := filepath.Walk(root, func(path string, fi os.FileInfo, err error) error {
		if err != nil {
			return err
		}
		if fi.IsDir() {
			if n := fi.Name(); n == "verifsim" || n == "testdata" || n == "vendor" || (strings.HasPrefix(n, ".") && path != root) {
				return filepath.SkipDir
			}
			return nil
		}
		if !strings.HasSuffix(path, ".go") || strings.HasSuffix(path, "_test.go") || strings.HasSuffix(path, ".pb.go") {
			return nil
		}
		n, err := rewrite(path, mod)
		if err != nil {
			return fmt.Errorf("%s: %v", path, err)
		}
		if n > 0 {
			total += n
			rel, _ := filepath.Rel(root, path)
			touched = append(touched, rel)
		}
		return nil
	})
	if err != nil {
		fmt.Fprintln(os.Stderr, "seams:", err)
		os.Exit(2)
	}
	sort.Strings(touched)
	gen := fmt.Sprintf("package verifsim\n\nfunc init() {\n\tClockSites = %d\n}\n", total)
	if err := os.WriteFile(filepath.Join(root, "verifsim", "verifsim_clock.go"), []byte(gen), 0o644); err != nil {
		fmt.Fprintln(os.Stderr, "seams:", err)
		os.Exit(2)
	}
	if total > 0 {
		fmt.Printf("clock seam: %d reads of the wall clock routed through the simulated clock (%s)\n", total, strings.Join(touched, ","))
	}
}

type edit struct {
	off  int
	del  int
	text string
}

func rewrite(path, mod string) (int, error) {
	src, err := os.ReadFile(path)
	if err != nil {
		return 0, err
	}
	fset := token.NewFileSet()
	f, err := parser.ParseFile(fset, path, src, parser.ParseComments)
	if err != nil {
		return 0, err
	}
	local := ""
	for _, im := range f.Imports {
		if p, _ := strconv.Unquote(im.Path.Value); p == "time" {
			local = "time"
			if im.Name != nil {
				local = im.Name.Name
			}
		}
	}
	if local == "" || local == "_" || local == "." {
		return 0, nil
	}
	var edits []edit
	ast.Inspect(f, func(n ast.Node) bool {
		se, ok := n.(*ast.SelectorExpr)
		if !ok {
			return true
		}
		id, ok := se.X.(*ast.Ident)
		// id.Obj == nil: not a local declaration shadowing the package name
		if !ok || id.Name != local || id.Obj != nil || !clockFuncs[se.Sel.Name] {
			return true
		}
		edits = append(edits, edit{fset.Position(id.Pos()).Offset, len(id.Name), "verifclock"})
		return true
	})
	if len(edits) == 0 {
		return 0, nil
	}
	// import right after the package clause; a blank use keeps the time import needed
	pkgEnd := fset.Position(f.Name.End()).Offset
	edits = append(edits, edit{pkgEnd, 0, "\n\nimport verifclock \"" + mod + "/verifsim\"\n"})
	sort.Slice(edits, func(i, j int) bool { return edits[i].off > edits[j].off })
	out := append([]byte{}, src...)
	for _, e := range edits {
		out = append(out[:e.off], append([]byte(e.text), out[e.off+e.del:]...)...)
	}
	out = append(out, []byte("\n\nvar _ = "+local+".Nanosecond\n")...)
	return len(edits) - 1, os.WriteFile(path, out, 0o644)
}
