// instrument rewrites a scratch copy of the gonnx repository for the call
// simulator: a yield point before every statement and every map iteration routed
// through a seam the simulator owns. Text is spliced at AST offsets, so comments,
// build constraints and line numbers stay as they are. Stdlib only.
//
//	instrument <dir of the repository copy>
package main

import (
	"bytes"
	"fmt"
	"go/ast"
	"go/importer"
	"go/parser"
	"go/token"
	"go/types"
	"io"
	"os"
	"os/exec"
	"path/filepath"
	"sort"
	"strings"
)

type edit struct {
	off  int
	seq  int
	del  int
	text string
}

type pkgInfo struct {
	path  string
	dir   string
	files []string
}

func fatal(f string, a ...interface{}) {
	fmt.Fprintf(os.Stderr, "instrument: "+f+"\n", a...)
	os.Exit(1)
}

func goList(dir string, args ...string) string {
	cmd := exec.Command("go", append([]string{"list", "-tags", "verif"}, args...)...)
	cmd.Dir = dir
	var out, errb bytes.Buffer
	cmd.Stdout = &out
	cmd.Stderr = &errb
	if err := cmd.Run(); err != nil {
		fatal("go list %v: %v\n%s", args, err, errb.String())
	}
	return out.String()
}

// Blocking primitives. A task of the simulator must never be parked by the scheduler while it holds a real
// lock (another task would then block on that lock while holding the baton: deadlock), and the scheduler
// cannot see goroutines the library starts itself. So:
//   - mu.Lock()/RLock() ... Unlock()/RUnlock() and once.Do(f) are bracketed with verifsim.Hold(+1)/Hold(-1):
//     while a task's hold count is positive its yields do not preempt (critical sections are atomic to the
//     simulator: fewer interleavings, never an impossible one, never a deadlock);
//   - a function that uses go statements, channel operations, select, WaitGroup/Cond or TryLock holds for its
//     whole duration (function-level atomic).
func syncMethod(info *types.Info, call *ast.CallExpr) (typ, method string) {
	sel, ok := call.Fun.(*ast.SelectorExpr)
	if !ok {
		return "", ""
	}
	s, ok := info.Selections[sel]
	if !ok {
		return "", ""
	}
	fn, ok := s.Obj().(*types.Func)
	if !ok || fn.Pkg() == nil || fn.Pkg().Path() != "sync" {
		return "", ""
	}
	sig, ok := fn.Type().(*types.Signature)
	if !ok || sig.Recv() == nil {
		return "", ""
	}
	t := sig.Recv().Type()
	if p, ok := t.(*types.Pointer); ok {
		t = p.Elem()
	}
	if n, ok := t.(*types.Named); ok {
		return n.Obj().Name(), fn.Name()
	}
	return "", ""
}

// needsFunctionHold: constructs the simulator cannot bracket statement by statement.
func needsFunctionHold(info *types.Info, n ast.Node) (hold bool, spawns bool) {
	ast.Inspect(n, func(x ast.Node) bool {
		switch v := x.(type) {
		case *ast.GoStmt:
			hold, spawns = true, true
		case *ast.SelectStmt, *ast.SendStmt:
			hold = true
		case *ast.UnaryExpr:
			if v.Op == token.ARROW {
				hold = true
			}
		case *ast.RangeStmt:
			if tv, ok := info.Types[v.X]; ok {
				if _, isChan := tv.Type.Underlying().(*types.Chan); isChan {
					hold = true
				}
			}
		case *ast.CallExpr:
			typ, m := syncMethod(info, v)
			switch {
			case typ == "WaitGroup" || typ == "Cond":
				hold = true
			case m == "TryLock" || m == "TryRLock":
				hold = true
			}
		}
		return true
	})
	return hold, spawns
}

// state shared by all instrumented modules
var (
	siteNames        []string
	nMaps            int
	nMapsSkipped     int
	nAtomicFuncs     int
	nLocks           int
	spawnsGoroutines bool
	kv               int
)

func main() {
	if len(os.Args) != 2 && len(os.Args) != 4 {
		fatal("usage: instrument <repo copy> [<import path of a replaced dependency> <file,file,...>]")
	}
	root, _ := filepath.Abs(os.Args[1])
	modPath := strings.TrimSpace(goList(root, "-m"))
	hookPath := modPath + "/verifsim"
	instrumentModule(root, hookPath, nil, "")
	n1 := len(siteNames)
	extra := ""
	if len(os.Args) == 4 {
		// selected files of a dependency (a writable copy of the module, wired in with a replace directive): its
		// statements become yield points too, so interleavings INSIDE those library calls are explored
		// os.Args[2] is the import path of the dependency's root package; it is listed and type-checked from the
		// repository copy, i.e. under the repository's own build list (its replace directive points at the copy)
		dep := os.Args[2]
		only := map[string]bool{}
		for _, f := range strings.Split(os.Args[3], ",") {
			only[f] = true
		}
		instrumentPkgs(root, dep, hookPath, only, dep+"/")
		extra = fmt.Sprintf(" + %d sites in %s (%s)", len(siteNames)-n1, dep, os.Args[3])
	}
	// site table
	var sb strings.Builder
	sb.WriteString("package verifsim\n\nfunc init() {\n")
	fmt.Fprintf(&sb, "\tNSites = %d\n\tForeignGoroutines = %v\n\tSiteNames = []string{\n", len(siteNames), spawnsGoroutines)
	for _, s := range siteNames {
		fmt.Fprintf(&sb, "\t\t%q,\n", s)
	}
	sb.WriteString("\t}\n}\n")
	if err := os.WriteFile(filepath.Join(root, "verifsim", "verifsim_sites.go"), []byte(sb.String()), 0o644); err != nil {
		fatal("%v", err)
	}
	fmt.Printf("instrumented %s: %d yield sites%s, %d map iterations routed through the seam (%d kept: body mutates the map), %d functions held atomic (go/chan/select/WaitGroup/Cond), %d lock/once sections bracketed\n",
		modPath, n1, extra, nMaps, nMapsSkipped, nAtomicFuncs, nLocks)
}

// instrumentModule rewrites the packages of the module rooted at root. only != nil restricts it to the root
// package's files with those base names.
func instrumentModule(root, hookPath string, only map[string]bool, relPrefix string) {
	instrumentPkgs(root, "./...", hookPath, only, relPrefix)
}

// instrumentPkgs: `pattern` is resolved by go list with root as working directory.
func instrumentPkgs(root, pattern, hookPath string, only map[string]bool, relPrefix string) {
	// export data of every dependency (built on demand, cached)
	exports := map[string]string{}
	for _, l := range strings.Split(goList(root, "-export", "-deps", "-f", "{{.ImportPath}}\t{{.Export}}", pattern), "\n") {
		f := strings.Split(l, "\t")
		if len(f) == 2 && f[1] != "" {
			exports[f[0]] = f[1]
		}
	}
	var pkgs []pkgInfo
	for _, l := range strings.Split(goList(root, "-f", "{{.ImportPath}}\t{{.Dir}}\t{{join .GoFiles \",\"}}", pattern), "\n") {
		f := strings.Split(l, "\t")
		if len(f) != 3 || strings.HasSuffix(f[0], "/verifsim") {
			continue
		}
		pkgs = append(pkgs, pkgInfo{f[0], f[1], strings.Split(f[2], ",")})
	}
	sort.Slice(pkgs, func(i, j int) bool { return pkgs[i].path < pkgs[j].path })
	fset := token.NewFileSet()
	imp := importer.ForCompiler(fset, "gc", func(path string) (io.ReadCloser, error) {
		e, ok := exports[path]
		if !ok {
			return nil, fmt.Errorf("no export data for %s", path)
		}
		return os.Open(e)
	})
	for _, p := range pkgs {
		var files []*ast.File
		var names []string
		for _, fn := range p.files {
			full := filepath.Join(p.dir, fn)
			af, err := parser.ParseFile(fset, full, nil, parser.ParseComments)
			if err != nil {
				fatal("parse %s: %v", full, err)
			}
			files = append(files, af)
			names = append(names, full)
		}
		info := &types.Info{Types: map[ast.Expr]types.TypeAndValue{}, Selections: map[*ast.SelectorExpr]*types.Selection{}, Uses: map[*ast.Ident]types.Object{}}
		conf := types.Config{Importer: imp, Error: func(err error) {}}
		if _, err := conf.Check(p.path, fset, files, info); err != nil {
			fatal("type-check %s: %v", p.path, err)
		}
		for fi, af := range files {
			full := names[fi]
			base := filepath.Base(full)
			if strings.HasSuffix(base, ".pb.go") || strings.HasPrefix(base, "verif_") {
				continue
			}
			if only != nil && !only[base] {
				continue
			}
			src, err := os.ReadFile(full)
			if err != nil {
				fatal("%v", err)
			}
			var edits []edit
			seq := 0
			add := func(off, del int, text string) {
				edits = append(edits, edit{off, seq, del, text})
				seq++
			}
			offOf := func(pos token.Pos) int { return fset.Position(pos).Offset }
			rel, err := filepath.Rel(root, full)
			if err != nil || strings.HasPrefix(rel, "..") {
				rel = filepath.Base(full)
			}
			rel = relPrefix + rel
			// function-level holds (go/chan/select/WaitGroup/Cond/TryLock) and statement-level holds (Lock..Unlock, Once.Do)
			skip := map[ast.Node]bool{}
			for _, d := range af.Decls {
				fd, ok := d.(*ast.FuncDecl)
				if !ok || fd.Body == nil {
					continue
				}
				if hold, spawns := needsFunctionHold(info, fd); hold {
					nAtomicFuncs++
					add(offOf(fd.Body.Lbrace)+1, 0, " verifsim.Hold(1); defer verifsim.Hold(-1);")
					if spawns {
						spawnsGoroutines = true
					}
				}
			}
			// bracket blocking sync calls; the enclosing statement is found through a parent stack
			var stack []ast.Node
			ast.Inspect(af, func(x ast.Node) bool {
				if x == nil {
					stack = stack[:len(stack)-1]
					return true
				}
				stack = append(stack, x)
				call, ok := x.(*ast.CallExpr)
				if !ok {
					return true
				}
				typ, m := syncMethod(info, call)
				if typ == "" {
					return true
				}
				// innermost enclosing statement that sits in a statement list
				var stmt ast.Stmt
				for i := len(stack) - 2; i >= 0; i-- {
					if st, ok := stack[i].(ast.Stmt); ok {
						switch st.(type) {
						case *ast.ExprStmt, *ast.DeferStmt, *ast.AssignStmt:
							stmt = st
						}
						if stmt != nil {
							break
						}
					}
				}
				if stmt == nil {
					return true
				}
				_, isDefer := stmt.(*ast.DeferStmt)
				switch {
				case (typ == "Mutex" || typ == "RWMutex") && (m == "Lock" || m == "RLock"):
					if !isDefer {
						add(offOf(stmt.Pos()), 0, "verifsim.Hold(1); ")
						nLocks++
					}
				case (typ == "Mutex" || typ == "RWMutex") && (m == "Unlock" || m == "RUnlock"):
					if isDefer {
						add(offOf(stmt.Pos()), 0, "defer verifsim.Hold(-1); ")
					} else {
						add(offOf(stmt.End()), 0, "; verifsim.Hold(-1)")
					}
				case typ == "Once" && m == "Do":
					if !isDefer {
						add(offOf(stmt.Pos()), 0, "verifsim.Hold(1); ")
						add(offOf(stmt.End()), 0, "; verifsim.Hold(-1)")
						nLocks++
					}
				}
				return true
			})
			var visit func(n ast.Node) bool
			instrList := func(list []ast.Stmt) {
				for _, s := range list {
					switch s.(type) {
					case *ast.CaseClause, *ast.CommClause:
						continue // the entries of a switch/select body: only their own bodies get yields
					}
					id := len(siteNames)
					siteNames = append(siteNames, fmt.Sprintf("%s:%d", rel, fset.Position(s.Pos()).Line))
					add(offOf(s.Pos()), 0, fmt.Sprintf("verifsim.Y(%d); ", id))
				}
			}
			visit = func(n ast.Node) bool {
				if n == nil {
					return true
				}
				if skip[n] {
					return false
				}
				switch v := n.(type) {
				case *ast.BlockStmt:
					instrList(v.List)
				case *ast.CaseClause:
					instrList(v.Body)
				case *ast.CommClause:
					instrList(v.Body)
				case *ast.RangeStmt:
					tv, ok := info.Types[v.X]
					if !ok {
						break
					}
					if _, isMap := tv.Type.Underlying().(*types.Map); !isMap {
						break
					}
					xText := string(src[offOf(v.X.Pos()):offOf(v.X.End())])
					// bodies that delete from / insert into the map they iterate keep Go's own iteration
					mutates := false
					ast.Inspect(v.Body, func(x ast.Node) bool {
						switch c := x.(type) {
						case *ast.CallExpr:
							if id, ok := c.Fun.(*ast.Ident); ok && id.Name == "delete" {
								mutates = true
							}
						case *ast.AssignStmt:
							for _, l := range c.Lhs {
								if ix, ok := l.(*ast.IndexExpr); ok && string(src[offOf(ix.X.Pos()):offOf(ix.X.End())]) == xText {
									mutates = true
								}
							}
						}
						return true
					})
					if mutates {
						nMapsSkipped++
						break
					}
					nMaps++
					kv++
					name := fmt.Sprintf("verifKV%d", kv)
					txt := func(e ast.Expr) string {
						if e == nil {
							return "_"
						}
						return string(src[offOf(e.Pos()):offOf(e.End())])
					}
					k, val := txt(v.Key), txt(v.Value)
					tok := ":="
					if v.Tok == token.ASSIGN {
						tok = "="
					}
					var bind string
					switch {
					case k != "_" && val != "_":
						bind = fmt.Sprintf(" %s, %s %s %s.K, %s.V;", k, val, tok, name, name)
					case k != "_":
						bind = fmt.Sprintf(" %s %s %s.K;", k, tok, name)
					case val != "_":
						bind = fmt.Sprintf(" %s %s %s.V;", val, tok, name)
					default:
						bind = fmt.Sprintf(" _ = %s;", name)
					}
					start := offOf(v.For)
					lb := offOf(v.Body.Lbrace)
					add(start, lb+1-start, fmt.Sprintf("for _, %s := range verifsim.Pairs(%s) {%s", name, xText, bind))
				}
				return true
			}
			ast.Inspect(af, visit)
			if len(edits) == 0 {
				continue
			}
			// import on the package clause line (keeps line numbers)
			add(offOf(af.Name.End()), 0, `; import verifsim "`+hookPath+`"`)
			sort.SliceStable(edits, func(i, j int) bool {
				if edits[i].off != edits[j].off {
					return edits[i].off > edits[j].off
				}
				return edits[i].seq > edits[j].seq
			})
			out := src
			for _, e := range edits {
				out = append(append(append([]byte{}, out[:e.off]...), e.text...), out[e.off+e.del:]...)
			}
			if err := os.WriteFile(full, out, 0o644); err != nil {
				fatal("%v", err)
			}
		}
	}
}
