package mediumsim

import (
	"archive/tar"
	"archive/zip"
	"bytes"
	"compress/flate"
	"compress/gzip"
	"encoding/binary"
	"encoding/json"
	"fmt"
	"github.com/advancedclimatesystems/gonnx/verifsim"
	"hash/crc32"
	"hash/fnv"
	"math"
	"os"
	"path/filepath"
	"sort"
	"strings"
	"time"

	"github.com/advancedclimatesystems/gonnx/onnx"
	"google.golang.org/protobuf/proto"

	"verifsim/evid"
	"verifsim/mb"
	"verifsim/medium"
	"verifsim/rng"
	"verifsim/val"
)

// Config of one worker.
type Config struct {
	Prop     string
	Tier     string
	Seed     uint64
	W, NW    int
	Deadline time.Time
	RepoDir  string
	Scratch  string
	Known    []evid.Finding
	// Journal: file into which the sequence number of the case about to be executed is written (so that the
	// driver knows which case killed a worker that died of a fatal runtime error). EmitAt >= 0: do not execute
	// anything, regenerate the case stream and write case number EmitAt to EmitOut.
	Journal string
	EmitAt  int64
	EmitOut string
	// StopAt > 0: execute the stream up to and including case number StopAt-1, then stop (history replay).
	StopAt int64
}

type base struct {
	name string
	data []byte
}

// ---------- generated base models ----------

func f32(shape []int, xs ...float32) *val.V {
	v := &val.V{DT: val.Float32, Shape: shape}
	for _, x := range xs {
		v.Bits = append(v.Bits, uint64(math.Float32bits(x)))
	}
	return v
}

func i64(shape []int, xs ...int64) *val.V {
	v := &val.V{DT: val.Int64, Shape: shape}
	for _, x := range xs {
		v.Bits = append(v.Bits, uint64(x))
	}
	return v
}

// ChainModel: MatMul -> Add -> Relu with one raw and one typed-field weight.
func ChainModel() *mb.Model {
	return &mb.Model{Opset: 13,
		Inputs:  []mb.IO{{Name: "x", DT: val.Float32, Shape: []int64{0, 3}}},
		Outputs: []mb.IO{{Name: "y", DT: val.Float32, Shape: []int64{0, 2}}},
		Inits: []mb.Init{
			{Name: "W", V: f32([]int{3, 2}, 1, -2, 3.5, 4, -5, 6), Raw: true},
			{Name: "b", V: f32([]int{2}, 0.5, -0.25), Raw: false},
		},
		Nodes: []mb.Node{
			{Op: "MatMul", In: []string{"x", "W"}, Out: []string{"h"}},
			{Op: "Add", In: []string{"h", "b"}, Out: []string{"a"}},
			{Op: "Relu", In: []string{"a"}, Out: []string{"y"}},
		}}
}

// ConvModel: a 1-D convolution with bias followed by a Reshape with a weight-held shape.
func ConvModel() *mb.Model {
	return &mb.Model{Opset: 13,
		Inputs:  []mb.IO{{Name: "x", DT: val.Float32, Shape: []int64{0, 2, 5}}},
		Outputs: []mb.IO{{Name: "y", DT: val.Float32, Shape: []int64{0, 9}}},
		Inits: []mb.Init{
			{Name: "K", V: f32([]int{3, 2, 3}, 1, 0, -1, 2, 0.5, -2, 0, 1, 0, 1, 1, 1, -1, -1, -1, 0.25, 0.5, 0.75), Raw: true},
			{Name: "B", V: f32([]int{3}, 0.1, 0.2, 0.3), Raw: true},
			{Name: "shape", V: i64([]int{2}, -1, 9), Raw: false},
		},
		Nodes: []mb.Node{
			{Op: "Conv", In: []string{"x", "K", "B"}, Out: []string{"c"}},
			{Op: "Reshape", In: []string{"c", "shape"}, Out: []string{"y"}},
		}}
}

// WeightOnly: zero nodes, every graph output names an initializer.
func WeightOnly(inits ...mb.Init) *mb.Model {
	m := &mb.Model{Opset: 13}
	for _, in := range inits {
		m.Inits = append(m.Inits, in)
		sh := make([]int64, len(in.V.Shape))
		for i, s := range in.V.Shape {
			sh[i] = int64(s)
		}
		m.Outputs = append(m.Outputs, mb.IO{Name: in.Name, DT: in.V.DT, Shape: sh, NoShape: len(sh) == 0})
	}
	return m
}

// ConstOnly: one Constant node per tensor; outputs are the constants.
func ConstOnly(inits ...mb.Init) *mb.Model {
	m := &mb.Model{Opset: 13}
	for i := range inits {
		in := inits[i]
		out := in.Name
		in.Name = ""
		m.Nodes = append(m.Nodes, mb.Node{Op: "Constant", Out: []string{out}, Attrs: []mb.Attr{mb.AT("value", &in)}})
		m.Outputs = append(m.Outputs, mb.IO{Name: out, DT: in.V.DT, NoShape: true})
	}
	return m
}

// patterns of "interesting" element bit patterns per type.
func patterns(dt val.DT) []uint64 {
	switch dt {
	case val.Float32:
		return []uint64{0, 0x80000000, 0x3f800000, 0xbf800000, 0x7f800000, 0xff800000, 0x7fc00000, 0x7fc00001, 0x7fa00000, 0xffc12345, 0x00000001, 0x807fffff, 0x7f7fffff, 0x3eaaaaab, 0x4b000001}
	case val.Float64:
		return []uint64{0, 1 << 63, 0x3ff0000000000000, 0xbff0000000000000, 0x7ff0000000000000, 0xfff0000000000000, 0x7ff8000000000000, 0x7ff8000000000001, 0x7ff4000000000000, 0xfff8123456789abc, 1, 0x800fffffffffffff, 0x7fefffffffffffff, 0x3fd5555555555555}
	case val.Int8:
		return []uint64{0, 1, 0x7f, 0x80, 0xff, 0x55}
	case val.Uint8:
		return []uint64{0, 1, 0x7f, 0x80, 0xff, 0xaa}
	case val.Int16:
		return []uint64{0, 1, 0x7fff, 0x8000, 0xffff, 0x0100, 0xff00}
	case val.Uint16:
		return []uint64{0, 1, 0x7fff, 0x8000, 0xffff, 0x0100}
	case val.Int32:
		return []uint64{0, 1, 0x7fffffff, 0x80000000, 0xffffffff, 0x01000000, 0x00010000}
	case val.Uint32:
		return []uint64{0, 1, 0x7fffffff, 0x80000000, 0xffffffff, 0x01020304}
	case val.Int64:
		return []uint64{0, 1, 0x7fffffffffffffff, 1 << 63, 0xffffffffffffffff, 0x0102030405060708, 1 << 32}
	case val.Uint64:
		return []uint64{0, 1, 0x7fffffffffffffff, 1 << 63, 0xffffffffffffffff, 0x0102030405060708, 1 << 32}
	case val.Bool:
		return []uint64{0, 1}
	}
	return []uint64{0}
}

func mask(dt val.DT) uint64 {
	switch dt.Size() {
	case 1:
		return 0xff
	case 2:
		return 0xffff
	case 4:
		return 0xffffffff
	}
	return ^uint64(0)
}

// GenVal makes a value of the given type and shape from patterns and PRNG bits.
func GenVal(r *rng.R, dt val.DT, shape []int) *val.V {
	n := val.NElems(shape)
	v := &val.V{DT: dt, Shape: append([]int{}, shape...), Bits: make([]uint64, n)}
	ps := patterns(dt)
	for i := range v.Bits {
		if r.Chance(1, 2) {
			v.Bits[i] = ps[r.Intn(len(ps))]
		} else {
			v.Bits[i] = r.U64() & mask(dt)
		}
		if dt == val.Bool {
			v.Bits[i] &= 1
		}
	}
	return v
}

var shapesByRank = [][][]int{
	{{}},
	{{1}, {3}, {7}},
	{{1, 1}, {2, 3}, {4, 1}},
	{{2, 1, 3}, {1, 2, 2}},
	{{1, 2, 1, 3}, {2, 2, 2, 2}},
}

// ---------- emitter ----------

type gen struct {
	envNames []string
	cfg      Config
	st       *evid.Stats
	env      *Env
	idx      int64
	seen     map[uint64]bool
	stop     bool
	vcap     int
	check    func(*Case, *Env) []verdict
	recent   []*Case // the last few cases this process executed (prelude of a recorded violation)
	seq      int64
	journal  *os.File
}

func (g *gen) mine() bool {
	i := g.idx
	g.idx++
	return int(i%int64(g.cfg.NW)) == g.cfg.W
}

func (g *gen) expired() bool {
	if g.cfg.EmitOut != "" || g.cfg.StopAt > 0 {
		return g.stop // regenerate / re-execute the stream until the wanted case, whatever the clock says
	}
	return g.stop || time.Now().After(g.cfg.Deadline)
}

func hashCase(c *Case) uint64 {
	h := fnv.New64a()
	h.Write([]byte(c.Reader))
	fmt.Fprintf(h, "|%d|%d|%s|", c.ZipFail, c.ZipLen, c.ZipMode)
	h.Write(c.Data)
	return h.Sum64()
}

// run executes one case. nontrivial says whether the damage actually changed what the reader consumed.
func (g *gen) run(c *Case, nontrivial bool) {
	seq := g.seq
	g.seq++
	if g.cfg.EmitOut != "" {
		if seq == g.cfg.EmitAt {
			raw, _ := json.Marshal(c)
			os.WriteFile(g.cfg.EmitOut, raw, 0o644)
			g.stop = true
		}
		return
	}
	if g.cfg.StopAt > 0 && seq >= g.cfg.StopAt {
		g.stop = true
		return
	}
	if g.journal != nil {
		var b [8]byte
		binary.LittleEndian.PutUint64(b[:], uint64(seq))
		g.journal.WriteAt(b[:], 0)
	}
	g.st.Evals++
	if evid.FastStopRequested() {
		g.stop = true
	}
	if c.Env == nil && len(g.envNames) > 0 {
		if c.Env = evid.DrawEnv(g.envNames, rng.Mix(g.cfg.Seed, uint64(seq)*31+uint64(g.cfg.W))); c.Env != nil {
			g.st.Fault("environment-variable-set")
		}
	}
	if c.Clock == nil && verifsim.ClockSites > 0 {
		if c.Clock = evid.DrawClock(rng.Mix(g.cfg.Seed, uint64(seq)*37+uint64(g.cfg.W)+1)); c.Clock != nil {
			g.st.Fault("clock-jump")
		}
	}
	vs := g.check(c, g.env)
	for _, f := range c.Faults {
		g.st.Fault(f.Kind)
	}
	if c.ZipFail >= 0 {
		g.st.Fault("zip-readat-" + c.ZipMode)
	}
	g.st.Probe("family_" + c.Family)
	g.st.Probe("reader_" + c.Reader)
	if nontrivial {
		g.st.NonTrivial++
		g.st.Hashes = append(g.st.Hashes, hashCase(c))
	}
	if len(g.st.Samples) < 6 && (g.st.Evals%997 == 1) {
		s := map[string]interface{}{"family": c.Family, "base": c.Base, "reader": c.Reader, "faults": c.Faults, "note": c.Note, "bytes_len": len(c.Data)}
		if len(c.Data) <= 96 {
			s["bytes_hex"] = fmt.Sprintf("%x", c.Data)
		}
		g.st.Samples = append(g.st.Samples, s)
	}
	for _, v := range vs {
		if k := evid.MatchKnown(g.cfg.Known, g.cfg.Prop, v.sig); k != nil {
			g.st.Known[v.sig]++
			continue
		}
		rec := *c
		for _, p := range g.recent {
			pc := *p
			pc.Prelude = nil
			rec.Prelude = append(rec.Prelude, pc)
		}
		raw, _ := json.Marshal(&rec)
		g.st.Violations = append(g.st.Violations, evid.Violation{Property: g.cfg.Prop, Signature: v.sig, What: v.what, Case: raw, Seq: seq, W: g.cfg.W})
		evid.FastStopSignal()
		if len(g.st.Violations) >= g.vcap {
			g.stop = true
		}
	}
	if len(c.Data) <= 8192 {
		g.recent = append(g.recent, c)
		if len(g.recent) > 8 {
			g.recent = g.recent[1:]
		}
	}
}

func (g *gen) bytesCase(family string, b base, fs []medium.Fault, old []byte, reader string, note string) {
	if !g.mine() || g.stop {
		return
	}
	data, changed := medium.ApplyAll(fs, b.data, old)
	c := &Case{Family: family, Base: b.name, Faults: fs, Reader: reader, ZipFail: -1, Data: data, Note: note}
	switch reader {
	case "zip-store":
		c.Data = MakeZip(data, false)
	case "zip-deflate":
		c.Data = MakeZip(data, true)
	}
	g.run(c, changed)
}

// rawCase runs literal bytes.
func (g *gen) rawCase(family, name string, data []byte, reader string, nontrivial bool, note string) {
	if !g.mine() || g.stop {
		return
	}
	c := &Case{Family: family, Base: name, Reader: reader, ZipFail: -1, Data: data, Note: note}
	switch reader {
	case "zip-store":
		c.Data = MakeZip(data, false)
	case "zip-deflate":
		c.Data = MakeZip(data, true)
	}
	g.run(c, nontrivial)
}

// ---------- corpora ----------

func sampleBases(repo string) []base {
	var out []base
	dir := filepath.Join(repo, "sample_models", "onnx_models")
	ents, err := os.ReadDir(dir)
	if err != nil {
		return nil
	}
	for _, e := range ents {
		if e.IsDir() {
			continue
		}
		b, err := os.ReadFile(filepath.Join(dir, e.Name()))
		if err != nil {
			continue
		}
		out = append(out, base{"sample:" + e.Name(), b})
	}
	sort.Slice(out, func(i, j int) bool { return out[i].name < out[j].name })
	return out
}

func genBases() []base {
	r := rng.New(12345)
	out := []base{
		{"gen:chain", ChainModel().Bytes()},
		{"gen:conv", ConvModel().Bytes()},
	}
	var ws, cs []mb.Init
	for i, dt := range val.Supported {
		ws = append(ws, mb.Init{Name: fmt.Sprintf("w%d", i), V: GenVal(r, dt, []int{2, 2}), Raw: i%2 == 0})
		cs = append(cs, mb.Init{Name: fmt.Sprintf("c%d", i), V: GenVal(r, dt, []int{3}), Raw: i%2 == 1})
	}
	out = append(out, base{"gen:weights", WeightOnly(ws...).Bytes()})
	out = append(out, base{"gen:consts", ConstOnly(cs...).Bytes()})
	return out
}

// ---------- worker ----------

// Worker runs this worker's share of the case space for cfg.Prop.
func Worker(cfg Config) *evid.Stats {
	st := evid.NewStats()
	g := &gen{cfg: cfg, st: st, env: &Env{Scratch: cfg.Scratch, Stats: st}, vcap: 8, envNames: evid.EnvNames()}
	if cfg.Journal != "" && cfg.EmitOut == "" {
		g.journal, _ = os.Create(cfg.Journal)
	}
	switch cfg.Prop {
	case "C18":
		g.check = Check18
		g.families18()
	case "C12":
		g.check = Check12
		g.families12()
	default:
		st.Trouble = append(st.Trouble, "mediumsim: unknown property "+cfg.Prop)
	}
	return st
}

func (g *gen) thorough() bool { return g.cfg.Tier == "thorough" }

// singleFaultSweep enumerates every truncation offset and every single-bit flip of b.
func (g *gen) singleFaultSweep(family string, b base, reader string, stride int) {
	for off := 0; off <= len(b.data); off += stride {
		if g.stop {
			return
		}
		if off < len(b.data) {
			g.bytesCase(family, b, []medium.Fault{{Kind: medium.Trunc, Off: off}}, nil, reader, "")
		}
	}
	for off := 0; off < len(b.data); off += stride {
		for bit := 0; bit < 8; bit++ {
			if g.stop {
				return
			}
			g.bytesCase(family, b, []medium.Fault{{Kind: medium.BitFlip, Off: off, Bit: bit}}, nil, reader, "")
		}
	}
}

func (g *gen) families18() {
	samples := sampleBases(g.cfg.RepoDir)
	if len(samples) == 0 {
		g.st.Trouble = append(g.st.Trouble, "no sample models found under "+g.cfg.RepoDir)
	}
	gens := genBases()
	var small, big []base
	for _, b := range append(samples, gens...) {
		if filepath.Ext(b.name) == ".zip" {
			continue
		}
		if len(b.data) <= 4096 {
			small = append(small, b)
		} else {
			big = append(big, b)
		}
	}
	// fault-free configuration first: every base through every reader
	for _, b := range append(small, big...) {
		for _, rd := range []string{"bytes", "file", "zip-store", "zip-deflate", "file-fifo"} {
			g.bytesCase("fault-free", b, nil, nil, rd, "")
		}
	}
	g.rawCase("fault-free", "missing file", nil, "file-missing", true, "the model file is not there")
	g.rawCase("fault-free", "directory", nil, "file-dir", true, "the path names a directory")
	// H. arbitrary short byte strings, exhaustively: length 0, 1 and 2
	g.rawCase("arbitrary", "len0", []byte{}, "bytes", true, "")
	for a := 0; a < 256; a++ {
		g.rawCase("arbitrary", "len1", []byte{byte(a)}, "bytes", true, "")
	}
	for a := 0; a < 65536; a++ {
		g.rawCase("arbitrary", "len2", []byte{byte(a >> 8), byte(a)}, "bytes", true, "")
	}
	// A. exhaustive single-fault spaces of the small files
	for _, b := range small {
		g.singleFaultSweep("single-fault", b, "bytes", 1)
	}
	// D/E. opset numbers and operator-type strings
	g.opsetFamily()
	g.opnameFamily()
	// F. structured perturbation of every field of every initializer and value-info
	for _, b := range small {
		g.structuredFamily(b)
	}
	// adversarial extents: element counts / byte sizes that wrap around in 64-bit arithmetic
	g.overflowFamily()
	// inputs that are (or pretend to be) other container and serialisation formats
	g.foreignFormatFamily(small)
	// messages nested far beyond any sane depth (protobuf decoders recurse)
	g.deepNestingFamily()
	// parts of the ONNX schema the pinned tree ignores (sparse initializers, functions, training info, graph
	// attributes ...): a tree that starts reading them must not start panicking on them
	g.sparseFamily()
	g.schemaFuzzFamily()
	// B. the same single faults through the other readers (strided in quick)
	stride := 7
	if g.thorough() {
		stride = 1
	}
	for _, b := range small {
		for _, rd := range []string{"file", "zip-store", "zip-deflate"} {
			if rd == "file" && !g.thorough() {
				g.singleFaultSweep("single-fault", b, rd, 29)
				continue
			}
			g.singleFaultSweep("single-fault", b, rd, stride)
		}
	}
	// damaged archives and failing ReaderAt under archive/zip
	for _, b := range small {
		g.zipFamily(b)
	}
	for _, b := range small {
		g.zipForgedFamily(b)
	}
	for bi, b := range small {
		if bi < 3 {
			g.zipMultiFamily(b)
		}
	}
	g.optionalFieldsFamily()
	// C + G: seeded search, until the budget is used
	g.randomFamily(small, big)
}

func (g *gen) opsetFamily() {
	b := ChainModel()
	versions := []int64{math.MinInt64, -13, -1, 0, 1, 2, 7, 11, 12, 13, 14, 15, 21, 127, 128, 255, 256, 13 + 256, 13 + 65536, 1 << 31, 13 + (1 << 32), math.MaxInt64}
	for _, v := range versions {
		m := *b
		m.Opset = v
		g.rawCase("opset", fmt.Sprintf("opset=%d", v), m.Bytes(), "bytes", true, "")
		for _, w := range versions {
			m2 := *b
			m2.Opset = v
			m2.Opsets = []int64{w}
			g.rawCase("opset", fmt.Sprintf("opset=%d,%d", v, w), m2.Bytes(), "bytes", true, "")
		}
	}
	for _, trip := range [][]int64{{13, 13, 13}, {1, 13, 2}, {13, 1, 14}, {14, 1, 13}, {12, 12, 12}, {0, 0, 13}} {
		m := *b
		m.Opset = trip[0]
		m.Opsets = trip[1:]
		g.rawCase("opset", fmt.Sprint("opsets=", trip), m.Bytes(), "bytes", true, "")
	}
	// every ordered triple over the values where comparisons, subtractions and conversions go wrong
	tv := []int64{math.MinInt64, -(1 << 62), -2, -1, 0, 1, 12, 13, 14, 1 << 31, 1 << 62, math.MaxInt64}
	for _, x := range tv {
		for _, y := range tv {
			for _, z := range tv {
				m := *b
				m.Opset = x
				m.Opsets = []int64{y, z}
				g.rawCase("opset", fmt.Sprintf("opsets=[%d %d %d]", x, y, z), m.Bytes(), "bytes", true, "")
			}
		}
	}
	// no import at all
	mp := b.Proto()
	mp.OpsetImport = nil
	raw, _ := proto.Marshal(mp)
	g.rawCase("opset", "no-import", raw, "bytes", true, "")
}

// unknownNames: operator-type strings outside the implemented set.
func unknownNames(r *rng.R) []string {
	out := []string{"", " ", "relu", "RELU", "Relu ", " Relu", "Relu\x00", "Relu6", "Rel", "Re lu", "ReLU", "conv", "CONV", "Conv2D", "gru", "Gru", "lstm", "Lstm", "rnn", "Rnn",
		"Identity", "Sum", "Mean", "Max", "Min", "Pow", "Exp", "Log", "Sqrt", "Neg", "Clip", "Erf", "Gelu", "BatchNormalization", "MaxPool", "AveragePool", "GlobalAveragePool",
		"Dropout", "LeakyRelu", "Elu", "Selu", "Pad", "Tile", "Where", "If", "Loop", "Scan", "ReduceSum", "ReduceMean", "ArgMin", "TopK", "Split", "Resize", "Einsum",
		"MatMulInteger", "QLinearConv", "ConvTranspose", "Softplus", "Softsign", "HardSigmoid", "ai.onnx.Relu", "Relu_13", "Relu:13", "ＲeＬu", "Ｒelu", "Κonv", "Add\n", "\tAdd", "Add,Mul",
		"abs", "ABS", "Abs1", "matmul", "Matmul", "MATMUL", "gemm", "GEMM", "softmax", "SoftMax", "logsoftmax", "LogSoftMax", "argmax", "Argmax", "reducemax", "Reducemax", "prelu", "PReLU", "Prelu",
		"constant", "ConstantOfshape", "constantofshape", "linearregressor", "Linearregressor", "scaler", "SCALER", "greaterorequal", "GreaterOrequal", "lessorequal", "Lessorequal"}
	// names that CONTAIN an implemented name: namespaces, domains, version suffixes, paths
	for _, n := range []string{"Relu", "Add", "Gemm", "Conv", "MatMul", "Tanh", "Abs", "LSTM"} {
		for _, f := range []string{"onnx::%s", "aten::%s", "::%s", "a::b::%s", "ai.onnx::%s", "%s::", "%s::v13", "ai.onnx.%s", "ai.onnx.ml.%s", "com.microsoft.%s", "com.microsoft::%s",
			"/%s", "%s/", "domain/%s", "%s@13", "%s.13", "%s-13", "%s_v13", "%s:0", "%s;", "[%s]", "(%s)", "%s()", "\"%s\"", "op:%s", "%s\n", "%s\x00x", "x\x00%s", "%s%s", "Fused%s", "%sV2", "Q%s", "Quantized%s"} {
			out = append(out, strings.ReplaceAll(f, "%s", n))
		}
	}
	for _, n := range pinnedOps {
		b := []byte(n)
		for k := 0; k < 3; k++ {
			c := append([]byte{}, b...)
			i := r.Intn(len(c))
			switch r.Intn(4) {
			case 0:
				c[i] ^= 0x20 // case flip
			case 1:
				c = append(c[:i], c[i+1:]...)
			case 2:
				c = append(c, byte('a'+r.Intn(26)))
			case 3:
				c[i] ^= byte(1 << uint(r.Intn(7)))
			}
			out = append(out, string(c))
		}
	}
	// code points whose case mappings leave ASCII or change the encoded length (Kelvin sign -> k, long s -> S,
	// dotted/dotless i, Angstrom, Ohm, capital sharp s, Latin Extended-C capitals, and two that GROW when lowered):
	// whatever a lookup does with case (ToLower, ToUpper, EqualFold, suggestions by edit distance), these are where
	// byte counts and rune counts part ways. Substituted for their look-alike letter where the name has one, and
	// replacing / appended to a random letter otherwise.
	specials := []struct {
		r     rune
		alike string
	}{{0x212A, "Kk"}, {0x017F, "Ss"}, {0x0130, "Ii"}, {0x0131, "Ii"}, {0x212B, "Aa"}, {0x2126, "Oo"}, {0x1E9E, "Ss"}, {0x00DF, "Ss"}, {0x2C62, "Ll"}, {0x2C64, "Rr"},
		{0x2C6D, "Aa"}, {0x2C6E, "Mm"}, {0x2C6F, "Aa"}, {0x2C70, "Oo"}, {0x2C7E, "Ss"}, {0x2C7F, "Zz"}, {0x023A, "Aa"}, {0x023E, "Tt"}, {0x01C5, "Dd"}, {0x1F88, "Aa"}, {0xFB01, "fi"}, {0x0149, "n"}}
	for _, n := range pinnedOps {
		rs := []rune(n)
		for _, sp := range specials {
			hit := false
			for i, c := range rs {
				if strings.ContainsRune(sp.alike, c) {
					d := append([]rune{}, rs...)
					d[i] = sp.r
					out = append(out, string(d))
					hit = true
					break
				}
			}
			if !hit || r.Chance(1, 3) {
				d := append([]rune{}, rs...)
				switch i := r.Intn(len(d)); r.Intn(3) {
				case 0:
					d[i] = sp.r
				case 1:
					d = append(d, sp.r)
				default:
					d = append([]rune{sp.r}, d...)
				}
				out = append(out, string(d))
			}
		}
	}
	for _, sp := range specials {
		for _, k := range []int{1, 2, 3, 4, 6} {
			out = append(out, strings.Repeat(string(sp.r), k))
		}
	}
	var keep []string
	for _, s := range out {
		if !implemented[s] && validUTF8(s) {
			keep = append(keep, s)
		}
	}
	return keep
}

func validUTF8(s string) bool {
	for _, r := range s {
		if r == 0xfffd {
			return false
		}
	}
	return true
}

func (g *gen) opnameFamily() {
	r := rng.New(rng.Mix(g.cfg.Seed, 0x0e))
	names := unknownNames(r)
	for _, nm := range names {
		for pos := 0; pos < 3; pos++ {
			m := ChainModel()
			nodes := append([]mb.Node{}, m.Nodes...)
			nodes[pos].Op = nm
			m.Nodes = nodes
			g.rawCase("opname", fmt.Sprintf("op[%d]=%q", pos, nm), m.Bytes(), "bytes", true, "")
		}
		// an extra unknown node whose output nobody uses must not be skipped either
		m := ChainModel()
		m.Nodes = append([]mb.Node{{Op: nm, In: []string{"x"}, Out: []string{"unused"}}}, m.Nodes...)
		g.rawCase("opname", fmt.Sprintf("extra-first=%q", nm), m.Bytes(), "bytes", true, "")
		m2 := ChainModel()
		m2.Nodes = append(m2.Nodes, mb.Node{Op: nm, In: []string{"y"}, Out: []string{"unused"}})
		g.rawCase("opname", fmt.Sprintf("extra-last=%q", nm), m2.Bytes(), "bytes", true, "")
	}
	// node NAMES around an unknown operator: the same name as an earlier node (graph surgery: a node copied and only
	// its op_type changed), as a later node, as a tensor, as an implemented operator; no name at all; all nodes nameless
	for _, nm := range []string{"Erf", "relu", "NotAnOperator"} {
		for pos := 0; pos < 3; pos++ {
			for _, nn := range []string{"n0", "n1", "n2", "x", "y", "Relu", "Add", nm} {
				m := ChainModel()
				nodes := append([]mb.Node{}, m.Nodes...)
				nodes[pos].Op, nodes[pos].Name = nm, nn
				m.Nodes = nodes
				g.rawCase("opname", fmt.Sprintf("op[%d]=%q named %q", pos, nm, nn), m.Bytes(), "bytes", true, "")
			}
			m := ChainModel()
			nodes := append([]mb.Node{}, m.Nodes...)
			for i := range nodes {
				nodes[i].NoName = true
			}
			nodes[pos].Op = nm
			m.Nodes = nodes
			g.rawCase("opname", fmt.Sprintf("op[%d]=%q all nameless", pos, nm), m.Bytes(), "bytes", true, "")
			m = ChainModel()
			nodes = append([]mb.Node{}, m.Nodes...)
			for i := range nodes {
				nodes[i].Name = "node"
			}
			nodes[pos].Op = nm
			m.Nodes = nodes
			g.rawCase("opname", fmt.Sprintf("op[%d]=%q all named alike", pos, nm), m.Bytes(), "bytes", true, "")
		}
	}
	// unknown operators under every node domain an exporter might write (the pinned tree ignores the field)
	for _, dom := range []string{"ai.onnx", "ai.onnx.ml", "ai.onnx.training", "ai.onnx.preview.training", "com.microsoft", "com.microsoft.experimental", "org.pytorch.aten", "org.pytorch._caffe2", "com.example", "custom", "ai.onnx.preview", "pkg.onnxscript.torch_lib"} {
		for _, nm := range []string{"Erf", "Adam", "Gradient", "NotAnOperator", "relu"} {
			for pos := 0; pos < 3; pos += 2 {
				m := ChainModel()
				nodes := append([]mb.Node{}, m.Nodes...)
				nodes[pos].Op, nodes[pos].Domain = nm, dom
				m.Nodes = nodes
				m.Opsets = []int64{1}
				g.rawCase("opname", fmt.Sprintf("op[%d]=%q domain=%q", pos, nm, dom), m.Bytes(), "bytes", true, "")
			}
			m := ChainModel()
			m.Nodes = append(m.Nodes, mb.Node{Op: nm, Domain: dom, In: []string{"y"}, Out: []string{"unused"}})
			g.rawCase("opname", fmt.Sprintf("extra-last=%q domain=%q", nm, dom), m.Bytes(), "bytes", true, "")
		}
	}
	// unknown operators in other graph contexts: output names that collide with a Constant's, an initializer's, a
	// graph input's or another node's output; no outputs; several outputs; after a Constant; no inputs
	for _, nm := range []string{"Erf", "relu", "Identity", "NotAnOperator"} {
		ctx := func(label string, mut func(m *mb.Model)) {
			m := ChainModel()
			mut(m)
			g.rawCase("opname", fmt.Sprintf("%s=%q", label, nm), m.Bytes(), "bytes", true, "")
		}
		konst := mb.Node{Op: "Constant", Out: []string{"c"}, Attrs: []mb.Attr{mb.AFloats("value_floats", 1, 2)}}
		for ki, ka := range []mb.Attr{mb.AFloats("value_floats", 1, 2), mb.AT("value", &mb.Init{V: f32([]int{2}, 1, 2), Raw: true}), mb.AT("value", &mb.Init{V: f32([]int{2}, 1, 2), Raw: false}),
			mb.AF("value_float", 1.5), mb.AI("value_int", 3), mb.AInts("value_ints", 1, 2)} {
			kn := mb.Node{Op: "Constant", Out: []string{"c"}, Attrs: []mb.Attr{ka}}
			ctx(fmt.Sprintf("same-output-as-constant(kind %d)", ki), func(m *mb.Model) {
				m.Nodes = append([]mb.Node{kn, {Op: nm, In: []string{"x"}, Out: []string{"c"}}}, m.Nodes...)
			})
			ctx(fmt.Sprintf("same-output-as-constant-before-it(kind %d)", ki), func(m *mb.Model) {
				m.Nodes = append([]mb.Node{{Op: nm, In: []string{"x"}, Out: []string{"c"}}, kn}, m.Nodes...)
			})
			ctx(fmt.Sprintf("same-output-as-constant-consumed(kind %d)", ki), func(m *mb.Model) {
				m.Nodes = append([]mb.Node{kn, {Op: nm, In: []string{"c"}, Out: []string{"c"}}}, m.Nodes...)
			})
		}
		ctx("same-output-as-initializer", func(m *mb.Model) {
			m.Nodes = append([]mb.Node{{Op: nm, In: []string{"x"}, Out: []string{"W"}}}, m.Nodes...)
		})
		ctx("same-output-as-graph-input", func(m *mb.Model) {
			m.Nodes = append([]mb.Node{{Op: nm, In: []string{"x"}, Out: []string{"x"}}}, m.Nodes...)
		})
		ctx("same-output-as-later-node", func(m *mb.Model) {
			m.Nodes = append([]mb.Node{{Op: nm, In: []string{"x"}, Out: []string{"h"}}}, m.Nodes...)
		})
		ctx("same-output-as-graph-output-after-it", func(m *mb.Model) {
			m.Nodes = append(m.Nodes, mb.Node{Op: nm, In: []string{"a"}, Out: []string{"y"}})
		})
		ctx("no-outputs", func(m *mb.Model) {
			m.Nodes = append([]mb.Node{{Op: nm, In: []string{"x"}}}, m.Nodes...)
		})
		ctx("no-inputs-no-outputs", func(m *mb.Model) {
			m.Nodes = append(m.Nodes, mb.Node{Op: nm})
		})
		ctx("three-outputs", func(m *mb.Model) {
			m.Nodes = append([]mb.Node{{Op: nm, In: []string{"x"}, Out: []string{"p", "q", "r"}}}, m.Nodes...)
		})
		ctx("after-constant-consuming-it", func(m *mb.Model) {
			m.Nodes = append([]mb.Node{konst, {Op: nm, In: []string{"c"}, Out: []string{"d"}}}, m.Nodes...)
		})
		ctx("only-node", func(m *mb.Model) {
			m.Nodes = []mb.Node{{Op: nm, In: []string{"x"}, Out: []string{"y"}}}
		})
	}
}

// structuredFamily: parse the base with protobuf, perturb one field of one initializer or
// value-info at a time, and serialise again.
func (g *gen) structuredFamily(b base) {
	mp0 := &onnx.ModelProto{}
	if err := proto.Unmarshal(b.data, mp0); err != nil || mp0.Graph == nil {
		return
	}
	emit := func(note string, mut func(mp *onnx.ModelProto)) {
		if !g.mine() || g.stop {
			return
		}
		mp := proto.Clone(mp0).(*onnx.ModelProto)
		mut(mp)
		raw, err := proto.MarshalOptions{Deterministic: true}.Marshal(mp)
		if err != nil {
			return
		}
		c := &Case{Family: "structured", Base: b.name, Reader: "bytes", ZipFail: -1, Data: raw, Note: note}
		g.run(c, string(raw) != string(b.data))
	}
	dimVals := []int64{-1, 0, 1, 2, math.MinInt64, math.MaxInt64, 1 << 31, 1 << 40, -(1 << 31)}
	for ii, tp := range mp0.Graph.Initializer {
		ii := ii
		for di := range tp.Dims {
			di := di
			for _, dv := range dimVals {
				dv := dv
				emit(fmt.Sprintf("init[%d].dims[%d]=%d", ii, di, dv), func(mp *onnx.ModelProto) { mp.Graph.Initializer[ii].Dims[di] = dv })
			}
			emit(fmt.Sprintf("init[%d].dims[%d]+=1", ii, di), func(mp *onnx.ModelProto) { mp.Graph.Initializer[ii].Dims[di]++ })
			emit(fmt.Sprintf("init[%d].dims[%d]-=1", ii, di), func(mp *onnx.ModelProto) { mp.Graph.Initializer[ii].Dims[di]-- })
		}
		emit(fmt.Sprintf("init[%d].dims dropped", ii), func(mp *onnx.ModelProto) { mp.Graph.Initializer[ii].Dims = nil })
		emit(fmt.Sprintf("init[%d].dims extended", ii), func(mp *onnx.ModelProto) {
			mp.Graph.Initializer[ii].Dims = append(mp.Graph.Initializer[ii].Dims, 2)
		})
		emit(fmt.Sprintf("init[%d].dims reversed", ii), func(mp *onnx.ModelProto) {
			d := mp.Graph.Initializer[ii].Dims
			for i, j := 0, len(d)-1; i < j; i, j = i+1, j-1 {
				d[i], d[j] = d[j], d[i]
			}
		})
		for dt := int32(-1); dt <= 21; dt++ {
			dt := dt
			emit(fmt.Sprintf("init[%d].data_type=%d", ii, dt), func(mp *onnx.ModelProto) { mp.Graph.Initializer[ii].DataType = dt })
		}
		emit(fmt.Sprintf("init[%d].data_type=max", ii), func(mp *onnx.ModelProto) { mp.Graph.Initializer[ii].DataType = math.MaxInt32 })
		for _, dl := range []int{-9, -8, -5, -4, -3, -2, -1, 1, 2, 3, 4, 5, 8} {
			dl := dl
			emit(fmt.Sprintf("init[%d].raw_data len%+d", ii, dl), func(mp *onnx.ModelProto) {
				t := mp.Graph.Initializer[ii]
				if dl < 0 {
					if len(t.RawData) >= -dl {
						t.RawData = t.RawData[:len(t.RawData)+dl]
					}
				} else {
					t.RawData = append(t.RawData, make([]byte, dl)...)
				}
			})
		}
		emit(fmt.Sprintf("init[%d].payload emptied", ii), func(mp *onnx.ModelProto) {
			t := mp.Graph.Initializer[ii]
			t.RawData, t.FloatData, t.Int32Data, t.Int64Data, t.DoubleData, t.Uint64Data = nil, nil, nil, nil, nil, nil
		})
		emit(fmt.Sprintf("init[%d].typed one short", ii), func(mp *onnx.ModelProto) {
			t := mp.Graph.Initializer[ii]
			if n := len(t.FloatData); n > 0 {
				t.FloatData = t.FloatData[:n-1]
			}
			if n := len(t.Int32Data); n > 0 {
				t.Int32Data = t.Int32Data[:n-1]
			}
			if n := len(t.Int64Data); n > 0 {
				t.Int64Data = t.Int64Data[:n-1]
			}
			if n := len(t.DoubleData); n > 0 {
				t.DoubleData = t.DoubleData[:n-1]
			}
			if n := len(t.Uint64Data); n > 0 {
				t.Uint64Data = t.Uint64Data[:n-1]
			}
		})
		emit(fmt.Sprintf("init[%d].typed one long", ii), func(mp *onnx.ModelProto) {
			t := mp.Graph.Initializer[ii]
			if len(t.FloatData) > 0 {
				t.FloatData = append(t.FloatData, 1)
			}
			if len(t.Int32Data) > 0 {
				t.Int32Data = append(t.Int32Data, 1)
			}
			if len(t.Int64Data) > 0 {
				t.Int64Data = append(t.Int64Data, 1)
			}
			if len(t.DoubleData) > 0 {
				t.DoubleData = append(t.DoubleData, 1)
			}
			if len(t.Uint64Data) > 0 {
				t.Uint64Data = append(t.Uint64Data, 1)
			}
		})
		emit(fmt.Sprintf("init[%d].name emptied", ii), func(mp *onnx.ModelProto) { mp.Graph.Initializer[ii].Name = "" })
		emit(fmt.Sprintf("init[%d].external", ii), func(mp *onnx.ModelProto) {
			mp.Graph.Initializer[ii].DataLocation = onnx.TensorProto_EXTERNAL
		})
		emit(fmt.Sprintf("init[%d] duplicated", ii), func(mp *onnx.ModelProto) {
			mp.Graph.Initializer = append(mp.Graph.Initializer, proto.Clone(mp.Graph.Initializer[ii]).(*onnx.TensorProto))
		})
		emit(fmt.Sprintf("init[%d] nil entry", ii), func(mp *onnx.ModelProto) {
			mp.Graph.Initializer[ii] = &onnx.TensorProto{}
		})
	}
	perturbVI := func(kind string, get func(mp *onnx.ModelProto) []*onnx.ValueInfoProto) {
		for vi := range get(mp0) {
			vi := vi
			emit(fmt.Sprintf("%s[%d].type dropped", kind, vi), func(mp *onnx.ModelProto) { get(mp)[vi].Type = nil })
			emit(fmt.Sprintf("%s[%d].name emptied", kind, vi), func(mp *onnx.ModelProto) { get(mp)[vi].Name = "" })
			emit(fmt.Sprintf("%s[%d].shape dropped", kind, vi), func(mp *onnx.ModelProto) {
				if tt := get(mp)[vi].GetType().GetTensorType(); tt != nil {
					tt.Shape = nil
				}
			})
			emit(fmt.Sprintf("%s[%d].type=sequence", kind, vi), func(mp *onnx.ModelProto) {
				get(mp)[vi].Type = &onnx.TypeProto{Value: &onnx.TypeProto_SequenceType{SequenceType: &onnx.TypeProto_Sequence{}}}
			})
			for et := int32(-1); et <= 17; et++ {
				et := et
				emit(fmt.Sprintf("%s[%d].elem_type=%d", kind, vi, et), func(mp *onnx.ModelProto) {
					if tt := get(mp)[vi].GetType().GetTensorType(); tt != nil {
						tt.ElemType = et
					}
				})
			}
			dims := get(mp0)[vi].GetType().GetTensorType().GetShape().GetDim()
			for di := range dims {
				di := di
				for _, dv := range dimVals {
					dv := dv
					emit(fmt.Sprintf("%s[%d].dim[%d]=%d", kind, vi, di, dv), func(mp *onnx.ModelProto) {
						get(mp)[vi].GetType().GetTensorType().GetShape().GetDim()[di].Value = &onnx.TensorShapeProto_Dimension_DimValue{DimValue: dv}
					})
				}
				emit(fmt.Sprintf("%s[%d].dim[%d] unset", kind, vi, di), func(mp *onnx.ModelProto) {
					get(mp)[vi].GetType().GetTensorType().GetShape().GetDim()[di].Value = nil
				})
				emit(fmt.Sprintf("%s[%d].dim[%d] nil", kind, vi, di), func(mp *onnx.ModelProto) {
					get(mp)[vi].GetType().GetTensorType().GetShape().Dim[di] = &onnx.TensorShapeProto_Dimension{}
				})
			}
		}
	}
	perturbVI("input", func(mp *onnx.ModelProto) []*onnx.ValueInfoProto { return mp.Graph.Input })
	perturbVI("output", func(mp *onnx.ModelProto) []*onnx.ValueInfoProto { return mp.Graph.Output })
	perturbVI("value_info", func(mp *onnx.ModelProto) []*onnx.ValueInfoProto { return mp.Graph.ValueInfo })
	emit("graph dropped", func(mp *onnx.ModelProto) { mp.Graph = nil })
	emit("nodes dropped", func(mp *onnx.ModelProto) { mp.Graph.Node = nil })
	emit("inputs dropped", func(mp *onnx.ModelProto) { mp.Graph.Input = nil })
	emit("outputs dropped", func(mp *onnx.ModelProto) { mp.Graph.Output = nil })
	emit("initializers dropped", func(mp *onnx.ModelProto) { mp.Graph.Initializer = nil })
	emit("opset dropped", func(mp *onnx.ModelProto) { mp.OpsetImport = nil })
	for ni := range mp0.Graph.Node {
		ni := ni
		emit(fmt.Sprintf("node[%d] inputs dropped", ni), func(mp *onnx.ModelProto) { mp.Graph.Node[ni].Input = nil })
		emit(fmt.Sprintf("node[%d] outputs dropped", ni), func(mp *onnx.ModelProto) { mp.Graph.Node[ni].Output = nil })
		emit(fmt.Sprintf("node[%d] attributes dropped", ni), func(mp *onnx.ModelProto) { mp.Graph.Node[ni].Attribute = nil })
		emit(fmt.Sprintf("node[%d] empty", ni), func(mp *onnx.ModelProto) { mp.Graph.Node[ni] = &onnx.NodeProto{} })
	}
}

// forgedZip builds an archive whose entry declares sizes that are not those of its data (CreateRaw writes the
// header as given). zip64 extra fields are emitted by archive/zip whenever a size needs them.
func forgedZip(data []byte, method uint16, declaredUncompressed, declaredCompressed uint64, crc uint32) []byte {
	var payload []byte
	if method == zip.Deflate {
		var cb bytes.Buffer
		fw, _ := flate.NewWriter(&cb, flate.DefaultCompression)
		fw.Write(data)
		fw.Close()
		payload = cb.Bytes()
	} else {
		payload = data
	}
	if declaredCompressed == 0 {
		declaredCompressed = uint64(len(payload))
	}
	var buf bytes.Buffer
	zw := zip.NewWriter(&buf)
	w, err := zw.CreateRaw(&zip.FileHeader{Name: "model.onnx", Method: method, CRC32: crc, CompressedSize64: declaredCompressed, UncompressedSize64: declaredUncompressed})
	if err != nil {
		panic(err)
	}
	w.Write(payload)
	if err := zw.Close(); err != nil {
		panic(err)
	}
	return buf.Bytes()
}

// zipForgedFamily: archives that are structurally fine but lie about the entry's size or checksum.
func (g *gen) zipForgedFamily(b base) {
	real := uint64(len(b.data))
	crc := crc32.ChecksumIEEE(b.data)
	sizes := []uint64{0, 1, real - 1, real, real + 1, 2 * real, 1 << 16, 1 << 31, 1<<32 - 1, 1 << 32, 1<<32 + 5, 1 << 40, 1 << 48, 1 << 50, 1 << 62, 1 << 63, 1<<64 - 1}
	for _, method := range []uint16{zip.Store, zip.Deflate} {
		rd := "zip-store"
		if method == zip.Deflate {
			rd = "zip-deflate"
		}
		for _, sz := range sizes {
			for _, c := range []uint32{crc, crc ^ 1} {
				if !g.mine() || g.stop {
					continue
				}
				arch := forgedZip(b.data, method, sz, 0, c)
				g.run(&Case{Family: "zip-forged-header", Base: fmt.Sprintf("%s|%s declared=%d crc_ok=%v", b.name, rd, sz, c == crc), Reader: rd, ZipFail: -1, Data: arch,
					Faults: []medium.Fault{{Kind: "zip-forged-size"}}}, sz != real || c != crc)
			}
		}
		// a lying compressed size as well
		for _, csz := range []uint64{1, real / 2, real + 7, 1 << 33, 1<<64 - 1} {
			if !g.mine() || g.stop {
				continue
			}
			arch := forgedZip(b.data, method, real, csz, crc)
			g.run(&Case{Family: "zip-forged-header", Base: fmt.Sprintf("%s|%s compressed=%d", b.name, rd, csz), Reader: rd, ZipFail: -1, Data: arch,
				Faults: []medium.Fault{{Kind: "zip-forged-size"}}}, true)
		}
	}
}

// optionalFieldsFamily: ONNX fields an inference runtime may ignore or start to honour. Model-local functions (valid,
// nested, self-recursive, mutually recursive in cycles of 2 and 3, called from the graph or not), and initializers whose
// data lives in another file (present, truncated, a git-LFS pointer, missing; offsets and lengths inside, at, beyond the
// end, negative, absent).
func (g *gen) optionalFieldsFamily() {
	fsets := map[string][]mb.Function{
		"valid":              {{Name: "F", Body: []string{"Relu"}}},
		"nested":             {{Name: "F", Body: []string{"Relu", "G"}}, {Name: "G", Body: []string{"Tanh"}}},
		"self-recursive":     {{Name: "F", Body: []string{"Relu", "F"}}},
		"mutually-recursive": {{Name: "F", Body: []string{"G"}}, {Name: "G", Body: []string{"Relu", "F"}}},
		"cycle-of-3":         {{Name: "F", Body: []string{"G"}}, {Name: "G", Body: []string{"H"}}, {Name: "H", Body: []string{"Abs", "F"}}},
		"named-like-an-op":   {{Name: "Relu", Body: []string{"Tanh"}}},
		"empty-body":         {{Name: "F", Body: nil}},
		"deep-chain": func() []mb.Function {
			var fs []mb.Function
			for i := 0; i < 200; i++ {
				fs = append(fs, mb.Function{Name: fmt.Sprintf("F%d", i), Body: []string{fmt.Sprintf("F%d", i+1)}})
			}
			fs = append(fs, mb.Function{Name: "F200", Body: []string{"Relu"}})
			fs[0].Name = "F"
			fs[0].Body = []string{"F1"}
			return fs
		}(),
	}
	var names []string
	for n := range fsets {
		names = append(names, n)
	}
	sort.Strings(names)
	for _, n := range names {
		for _, dom := range []string{"", "local", "ai.onnx"} {
			for pos := -1; pos < 3; pos++ {
				m := ChainModel()
				fs := append([]mb.Function{}, fsets[n]...)
				for i := range fs {
					fs[i].Domain = dom
				}
				m.Functions = fs
				if pos >= 0 {
					nodes := append([]mb.Node{}, m.Nodes...)
					nodes[pos].Op, nodes[pos].Domain = "F", dom
					if pos == 0 {
						nodes[pos].In = []string{"x"}
					} else {
						nodes[pos].In = nodes[pos].In[:1]
					}
					m.Nodes = nodes
				}
				g.rawCase("optional-fields", fmt.Sprintf("functions %s domain=%q called at %d", n, dom, pos), m.Bytes(), "bytes", true, "")
			}
		}
	}
	// external data
	payload := make([]byte, 129)
	for i := range payload {
		payload[i] = byte(i)
	}
	lfs := []byte("version https://git-lfs.github.com/spec/v1\noid sha256:4d7a214614ab2935c943f9e0ff69d22eadbb8f32b1258daaa5e2ca24d17e2393\nsize 12345\n")
	sidecars := map[string]map[string][]byte{
		"present": {"weights.bin": payload}, "truncated": {"weights.bin": payload[:5]}, "lfs-pointer": {"weights.bin": lfs}, "empty": {"weights.bin": {}},
		"missing": {"other.bin": payload}, "in-subdir": {"data/weights.bin": payload},
	}
	var snames []string
	for n := range sidecars {
		snames = append(snames, n)
	}
	sort.Strings(snames)
	entries := [][][2]string{
		{{"location", "weights.bin"}}, {{"location", "weights.bin"}, {"offset", "0"}, {"length", "24"}}, {{"location", "weights.bin"}, {"offset", "4096"}},
		{{"location", "weights.bin"}, {"offset", "-1"}}, {{"location", "weights.bin"}, {"offset", "128"}, {"length", "24"}}, {{"location", "weights.bin"}, {"offset", "0"}, {"length", "-4"}},
		{{"location", "weights.bin"}, {"offset", "9223372036854775807"}}, {{"location", "weights.bin"}, {"offset", "18446744073709551616"}, {"length", "1"}}, {{"location", "weights.bin"}, {"offset", "x"}},
		{{"location", "weights.bin"}, {"length", "99999999999"}}, {{"location", "data/weights.bin"}, {"offset", "100"}}, {{"location", "../weights.bin"}}, {{"location", "/etc/hostname"}},
		{{"location", ""}}, {{"location", "."}}, {{"location", "model.onnx"}, {"offset", "7"}}, {{"offset", "0"}, {"length", "24"}}, {{"location", "weights.bin"}, {"location", "other.bin"}, {"offset", "130"}},
		{{"location", "weights.bin"}, {"checksum", "00"}, {"offset", "129"}}, {{"location", "weights.bin"}, {"offset", "129"}, {"length", "0"}},
	}
	for _, sn := range snames {
		for ei, ent := range entries {
			for _, inline := range []bool{false, true} {
				if !g.mine() || g.stop {
					continue
				}
				m := ChainModel()
				mp := m.Proto()
				tp := mp.Graph.Initializer[0]
				tp.DataLocation = onnx.TensorProto_EXTERNAL
				if !inline {
					tp.RawData, tp.FloatData = nil, nil
				}
				for _, kv := range ent {
					tp.ExternalData = append(tp.ExternalData, &onnx.StringStringEntryProto{Key: kv[0], Value: kv[1]})
				}
				data, _ := proto.MarshalOptions{Deterministic: true}.Marshal(mp)
				g.run(&Case{Family: "optional-fields", Base: fmt.Sprintf("external-data sidecar=%s entries#%d inline=%v", sn, ei, inline), Reader: "file", ZipFail: -1, Data: data, Sidecars: sidecars[sn]}, true)
			}
		}
	}
}

// zipMultiFamily: the model as one entry among directories, other files and oddly named entries; fault-free and
// with single bit flips across the whole archive.
func (g *gen) zipMultiFamily(b base) {
	for _, layout := range []int{0x000, 0x001, 0x003, 0x0ff, 0x1ff, 0x2ff, 0x3ff, 0x210, 0x020, 0x145, 0x2aa} {
		arch := MakeMultiZip(b.data, layout)
		name := fmt.Sprintf("%s|zip-multi layout %#x", b.name, layout)
		if g.mine() && !g.stop {
			g.run(&Case{Family: "zip-multi-entry", Base: name, Reader: "zip-multi", ZipFail: -1, Data: arch}, true)
		}
		stride := 7
		if g.thorough() {
			stride = 1
		}
		for off := layout % stride; off < len(arch); off += stride {
			if g.stop {
				return
			}
			if !g.mine() {
				continue
			}
			data, ch := medium.Apply(medium.Fault{Kind: medium.BitFlip, Off: off, Bit: off % 8}, arch, nil)
			g.run(&Case{Family: "zip-multi-entry", Base: name, Faults: []medium.Fault{{Kind: medium.BitFlip, Off: off, Bit: off % 8}}, Reader: "zip-multi", ZipFail: -1, Data: data}, ch)
		}
	}
}

func (g *gen) zipFamily(b base) {
	for _, deflate := range []bool{false, true} {
		arch := MakeZip(b.data, deflate)
		rd := "zip-store"
		if deflate {
			rd = "zip-deflate"
		}
		ab := base{b.name + "|" + rd, arch}
		stride := 5
		if g.thorough() {
			stride = 1
		}
		// damage to the archive itself (CRC mismatches, broken headers, broken deflate streams)
		for off := 0; off < len(arch); off += stride {
			if g.stop {
				return
			}
			bit := off % 8
			if !g.mine() {
				continue
			}
			data, ch := medium.Apply(medium.Fault{Kind: medium.BitFlip, Off: off, Bit: bit}, ab.data, nil)
			g.run(&Case{Family: "zip-archive-damage", Base: ab.name, Faults: []medium.Fault{{Kind: medium.BitFlip, Off: off, Bit: bit}}, Reader: rd, ZipFail: -1, Data: data}, ch)
		}
		for off := 0; off < len(arch); off += stride {
			if g.stop {
				return
			}
			if !g.mine() {
				continue
			}
			data, ch := medium.Apply(medium.Fault{Kind: medium.Trunc, Off: off}, ab.data, nil)
			g.run(&Case{Family: "zip-archive-damage", Base: ab.name, Faults: []medium.Fault{{Kind: medium.Trunc, Off: off}}, Reader: rd, ZipFail: -1, Data: data}, ch)
		}
		// reader faults: the medium fails while archive/zip + io.ReadAll pull the entry
		for _, mode := range []string{"eio", "eof", "short"} {
			for off := 0; off < len(arch); off += stride {
				if g.stop {
					return
				}
				if !g.mine() {
					continue
				}
				g.run(&Case{Family: "zip-reader-fault", Base: ab.name, Reader: rd, ZipFail: int64(off), ZipLen: int64(1 + off%16), ZipMode: mode, Data: arch}, true)
				if off%4 == 0 {
					g.run(&Case{Family: "zip-reader-fault", Base: ab.name, Reader: rd, ZipFail: int64(off), ZipMode: mode, Data: arch}, true)
				}
			}
		}
	}
}

// randomFault draws one fault over a file of length n.
func randomFault(r *rng.R, n int, withOld bool) medium.Fault {
	if n == 0 {
		n = 1
	}
	kinds := []string{medium.Trunc, medium.BitFlip, medium.BitFlip, medium.ByteSet, medium.ZeroBlock, medium.DupBlock, medium.SwapBlock, medium.DropBlock, medium.Garbage}
	if withOld {
		kinds = append(kinds, medium.TornNew, medium.TornOld, medium.TornNew, medium.TornOld)
	}
	k := kinds[r.Intn(len(kinds))]
	blocks := []int{1, 2, 4, 8, 16, 32, 64, 128, 512}
	bl := blocks[r.Intn(len(blocks))]
	f := medium.Fault{Kind: k, Off: r.Intn(n), Bit: r.Intn(8), Val: r.Intn(256), Len: bl}
	switch k {
	case medium.SwapBlock:
		f.Off = (r.Intn(n) / bl) * bl
		f.Off2 = (r.Intn(n) / bl) * bl
	case medium.ZeroBlock, medium.DupBlock, medium.DropBlock, medium.TornNew, medium.TornOld:
		f.Off = (r.Intn(n) / bl) * bl
	}
	return f
}

// randomFamily: seeded multi-fault search and publish/crash sequences, until the deadline.
// Run i of the family is a pure function of (seed, i); worker w takes i ≡ w (mod NW).
func (g *gen) randomFamily(small, big []base) {
	// v1 -> v2 update pairs for torn writes: a model and a sibling with other weights/opset.
	chain2 := ChainModel()
	chain2.Inits[0].V = f32([]int{3, 2}, 9, 8, 7, 6, 5, 4)
	chain2.Inits[1].Raw = true
	conv2 := ConvModel()
	conv2.Opset = 14
	olds := map[string][]byte{"gen:chain": chain2.Bytes(), "gen:conv": conv2.Bytes()}
	for _, b := range small {
		if _, ok := olds[b.name]; !ok {
			// the previous version of a sample file: the same file with its first half zeroed —
			// any stale content will do for a torn write, it only has to differ
			o, _ := medium.Apply(medium.Fault{Kind: medium.Garbage, Off: len(b.data) / 3, Len: len(b.data) / 2, Val: 7}, b.data, nil)
			olds[b.name] = o
		}
	}
	readers := []string{"bytes", "bytes", "bytes", "file", "zip-store", "zip-deflate"}
	for i := int64(g.cfg.W); !g.expired(); i += int64(g.cfg.NW) {
		r := rng.New(rng.Mix(g.cfg.Seed, 0x18, uint64(i)))
		var b base
		if len(big) > 0 && r.Chance(1, 12) {
			b = big[r.Intn(len(big))]
		} else {
			b = small[r.Intn(len(small))]
		}
		old := olds[b.name]
		nf := 1 + r.Intn(4)
		if len(b.data) > 4096 {
			nf = 1 + r.Intn(2)
		}
		var fs []medium.Fault
		for k := 0; k < nf; k++ {
			fs = append(fs, randomFault(r, len(b.data), old != nil))
		}
		if old != nil && r.Chance(1, 16) {
			fs = []medium.Fault{{Kind: medium.Stale}}
		}
		rd := readers[r.Intn(len(readers))]
		if len(b.data) > 4096 {
			rd = "bytes"
		}
		data, changed := medium.ApplyAll(fs, b.data, old)
		c := &Case{Family: "random-multi-fault", Base: b.name, Faults: fs, Reader: rd, ZipFail: -1, Data: data}
		switch rd {
		case "zip-store":
			c.Data = MakeZip(data, false)
		case "zip-deflate":
			c.Data = MakeZip(data, true)
		}
		g.idx++
		g.run(c, changed)
	}
}

// foreignFormatFamily: model bytes wrapped in, or replaced by, other formats a loader might be taught to sniff
// (gzip, tar, tar.gz, zip given as plain bytes, text formats), complete, truncated and damaged. The pinned tree
// refuses all of them with a protobuf error; none may panic.
func (g *gen) foreignFormatFamily(bases []base) {
	gz := func(b []byte) []byte {
		var buf bytes.Buffer
		w := gzip.NewWriter(&buf)
		w.Write(b)
		w.Close()
		return buf.Bytes()
	}
	tarOf := func(name string, b []byte, extra bool) []byte {
		var buf bytes.Buffer
		tw := tar.NewWriter(&buf)
		if extra {
			tw.WriteHeader(&tar.Header{Name: "README.txt", Mode: 0o644, Size: 5})
			tw.Write([]byte("hello"))
			tw.WriteHeader(&tar.Header{Name: "dir/", Typeflag: tar.TypeDir, Mode: 0o755})
		}
		tw.WriteHeader(&tar.Header{Name: name, Mode: 0o644, Size: int64(len(b))})
		tw.Write(b)
		tw.Close()
		return buf.Bytes()
	}
	emit := func(label string, data []byte) {
		cuts := []int{len(data), len(data) / 4, len(data) / 2, len(data) * 3 / 4, len(data) - 1, 10, 18, 512, 513, 1024}
		for _, c := range cuts {
			if c < 0 || c > len(data) {
				continue
			}
			g.rawCase("foreign-format", fmt.Sprintf("%s cut at %d of %d", label, c, len(data)), data[:c], "bytes", true, "")
		}
		for k := 0; k < 24 && k*7 < len(data); k++ {
			d := append([]byte{}, data...)
			d[k*7] ^= 1 << uint(k%8)
			g.rawCase("foreign-format", fmt.Sprintf("%s bit flip at %d", label, k*7), d, "bytes", true, "")
		}
	}
	for bi, b := range bases {
		if bi > 3 {
			break
		}
		emit(b.name+" gzip", gz(b.data))
		emit(b.name+" tar", tarOf("model.onnx", b.data, false))
		emit(b.name+" tar.gz", gz(tarOf("model.onnx", b.data, false)))
		emit(b.name+" tar.gz with other entries", gz(tarOf("dir/model.onnx", b.data, true)))
		emit(b.name+" tar.gz without onnx entry", gz(tarOf("weights.bin", b.data, true)))
		emit(b.name+" gzip twice", gz(gz(b.data)))
		emit(b.name+" zip as plain bytes", MakeZip(b.data, true))
	}
	for _, lit := range []string{"\x1f\x8b", "\x1f\x8b\x08", "\x1f\x8b\x08\x00\x00\x00\x00\x00\x00\xff", "PK\x03\x04", "PK\x05\x06" + strings.Repeat("\x00", 18), "BZh91AY&SY", "\xfd7zXZ\x00", "\x28\xb5\x2f\xfd", "\x89HDF\r\n\x1a\n",
		"\x93NUMPY\x01\x00", "\x80\x04\x95", "{\"graph\": {}}", "ir_version: 7\ngraph { }", "<?xml version=\"1.0\"?>", "ustar\x0000", strings.Repeat("\x00", 512), strings.Repeat("\x00", 1024), "\xef\xbb\xbf", "ONNX", "\x08\x07\x12"} {
		g.rawCase("foreign-format", fmt.Sprintf("magic %q", lit), []byte(lit), "bytes", true, "")
	}
}

// nested builds `depth` levels of length-delimited field `field` around `core`, outermost first.
func nested(fields []int, depth int, core []byte) []byte {
	// sizes from the inside out
	sizes := make([]int, depth+1)
	sizes[depth] = len(core)
	vlen := func(n int) int {
		l := 1
		for n >= 0x80 {
			n >>= 7
			l++
		}
		return l
	}
	for d := depth - 1; d >= 0; d-- {
		sizes[d] = 1 + vlen(sizes[d+1]) + sizes[d+1]
	}
	out := make([]byte, 0, sizes[0])
	for d := 0; d < depth; d++ {
		f := fields[d%len(fields)]
		out = append(out, byte(f<<3|2))
		n := sizes[d+1]
		for n >= 0x80 {
			out = append(out, byte(n)|0x80)
			n >>= 7
		}
		out = append(out, byte(n))
	}
	return append(out, core...)
}

func (g *gen) deepNestingFamily() {
	// graph(7).input(11).type(2).sequence_type(4).elem_type(1).sequence_type(4).elem_type(1)... and
	// graph(7).node(1).attribute(5).g(6).node(1).attribute(5).g(6)... (subgraphs)
	chains := map[string][]int{"sequence-types": {4, 1}, "subgraphs": {1, 5, 6}}
	for _, name := range []string{"sequence-types", "subgraphs"} {
		for _, depth := range []int{64, 1000, 9990, 10010, 100000, 1200000, 4000000} {
			if !g.mine() || g.stop {
				continue
			}
			var data []byte
			if name == "sequence-types" {
				data = nested([]int{7, 11, 2}, 3, nested(chains[name], depth, nil))
			} else {
				data = nested([]int{7}, 1, nested(chains[name], depth, nil))
			}
			// a valid opset import after the nested part, so that only the nesting stands between the file and a Model
			data = append(data, 0x42, 0x02, 0x10, 0x0d)
			g.run(&Case{Family: "deep-nesting", Base: fmt.Sprintf("%s nested %d deep (%d bytes)", name, depth, len(data)), Reader: "bytes", ZipFail: -1, Data: data}, true)
		}
	}
}
