package mediumsim

import (
	"fmt"
	"math"
	"strings"

	"github.com/advancedclimatesystems/gonnx/onnx"
	"google.golang.org/protobuf/proto"

	"verifsim/mb"
	"verifsim/medium"
	"verifsim/refdec"
	"verifsim/rng"
	"verifsim/val"
)

// tensorFault is a fault at tensor granularity: it edits one stored TensorProto.
type tensorFault struct {
	name string
	mut  func(tp *onnx.TensorProto)
}

func typedShrink(tp *onnx.TensorProto, k int) {
	cut := func(n int) int {
		if n-k < 0 {
			return 0
		}
		return n - k
	}
	tp.FloatData = tp.FloatData[:cut(len(tp.FloatData))]
	tp.Int32Data = tp.Int32Data[:cut(len(tp.Int32Data))]
	tp.Int64Data = tp.Int64Data[:cut(len(tp.Int64Data))]
	tp.DoubleData = tp.DoubleData[:cut(len(tp.DoubleData))]
	tp.Uint64Data = tp.Uint64Data[:cut(len(tp.Uint64Data))]
}

func typedGrow(tp *onnx.TensorProto) {
	if len(tp.FloatData) > 0 {
		tp.FloatData = append(tp.FloatData, 2.5)
	}
	if len(tp.Int32Data) > 0 {
		tp.Int32Data = append(tp.Int32Data, 1)
	}
	if len(tp.Int64Data) > 0 {
		tp.Int64Data = append(tp.Int64Data, 3)
	}
	if len(tp.DoubleData) > 0 {
		tp.DoubleData = append(tp.DoubleData, 2.5)
	}
	if len(tp.Uint64Data) > 0 {
		tp.Uint64Data = append(tp.Uint64Data, 3)
	}
}

// tensorFaults enumerates the tensor-granularity fault space for one stored tensor.
func tensorFaults(tp0 *onnx.TensorProto) []tensorFault {
	var fs []tensorFault
	esz := val.DT(tp0.DataType).Size()
	if len(tp0.RawData) > 0 {
		for _, d := range []int{1, esz, esz + 1, 2 * esz} {
			d := d
			if d <= len(tp0.RawData) {
				fs = append(fs, tensorFault{fmt.Sprintf("raw short by %d bytes", d), func(tp *onnx.TensorProto) { tp.RawData = tp.RawData[:len(tp.RawData)-d] }})
			}
			fs = append(fs, tensorFault{fmt.Sprintf("raw long by %d bytes", d), func(tp *onnx.TensorProto) { tp.RawData = append(tp.RawData, make([]byte, d)...) }})
		}
		fs = append(fs, tensorFault{"raw emptied", func(tp *onnx.TensorProto) { tp.RawData = nil }})
		fs = append(fs, tensorFault{"raw halved", func(tp *onnx.TensorProto) { tp.RawData = tp.RawData[:len(tp.RawData)/2] }})
	} else {
		fs = append(fs, tensorFault{"typed one short", func(tp *onnx.TensorProto) { typedShrink(tp, 1) }})
		fs = append(fs, tensorFault{"typed two short", func(tp *onnx.TensorProto) { typedShrink(tp, 2) }})
		fs = append(fs, tensorFault{"typed one long", func(tp *onnx.TensorProto) { typedGrow(tp) }})
		fs = append(fs, tensorFault{"typed emptied", func(tp *onnx.TensorProto) { typedShrink(tp, 1<<30) }})
	}
	for di := range tp0.Dims {
		di := di
		fs = append(fs,
			tensorFault{fmt.Sprintf("dims[%d]+1", di), func(tp *onnx.TensorProto) { tp.Dims[di]++ }},
			tensorFault{fmt.Sprintf("dims[%d]-1", di), func(tp *onnx.TensorProto) { tp.Dims[di]-- }},
			tensorFault{fmt.Sprintf("dims[%d] negated", di), func(tp *onnx.TensorProto) { tp.Dims[di] = -tp.Dims[di] }},
			tensorFault{fmt.Sprintf("dims[%d]=0", di), func(tp *onnx.TensorProto) { tp.Dims[di] = 0 }},
			tensorFault{fmt.Sprintf("dims[%d] doubled", di), func(tp *onnx.TensorProto) { tp.Dims[di] *= 2 }},
		)
	}
	fs = append(fs,
		tensorFault{"dims extended by 2", func(tp *onnx.TensorProto) { tp.Dims = append(tp.Dims, 2) }},
		tensorFault{"dims extended by 1", func(tp *onnx.TensorProto) { tp.Dims = append(tp.Dims, 1) }},
	)
	if len(tp0.Dims) > 0 {
		fs = append(fs, tensorFault{"last dim dropped", func(tp *onnx.TensorProto) { tp.Dims = tp.Dims[:len(tp.Dims)-1] }})
		fs = append(fs, tensorFault{"dims dropped", func(tp *onnx.TensorProto) { tp.Dims = nil }})
	}
	fs = append(fs,
		tensorFault{"stray external_data entries (data_location DEFAULT)", func(tp *onnx.TensorProto) {
			tp.ExternalData = []*onnx.StringStringEntryProto{{Key: "location", Value: "weights.bin"}, {Key: "offset", Value: "0"}, {Key: "length", Value: "4096"}}
		}},
		tensorFault{"doc_string set", func(tp *onnx.TensorProto) { tp.DocString = "inlined from weights.bin" }},
		tensorFault{"data_location EXTERNAL with inline payload", func(tp *onnx.TensorProto) { tp.DataLocation = onnx.TensorProto_EXTERNAL }},
	)
	for code := int32(-2); code <= 22; code++ {
		code := code
		if code == tp0.DataType {
			continue
		}
		fs = append(fs, tensorFault{fmt.Sprintf("data_type->%d", code), func(tp *onnx.TensorProto) { tp.DataType = code }})
	}
	return fs
}

// populateField moves nothing: it sets data_type to an unsupported code and fills exactly one typed
// field (or raw_data) with n elements.
func populated(code int32, field string, dims []int64, n int) *onnx.TensorProto {
	tp := &onnx.TensorProto{Name: "t", DataType: code, Dims: append([]int64{}, dims...)}
	switch field {
	case "float_data":
		for i := 0; i < n; i++ {
			tp.FloatData = append(tp.FloatData, float32(i)+0.5)
		}
	case "int32_data":
		for i := 0; i < n; i++ {
			tp.Int32Data = append(tp.Int32Data, int32(i+1))
		}
	case "int64_data":
		for i := 0; i < n; i++ {
			tp.Int64Data = append(tp.Int64Data, int64(i+1))
		}
	case "double_data":
		for i := 0; i < n; i++ {
			tp.DoubleData = append(tp.DoubleData, float64(i)+0.25)
		}
	case "uint64_data":
		for i := 0; i < n; i++ {
			tp.Uint64Data = append(tp.Uint64Data, uint64(i+1))
		}
	case "string_data":
		for i := 0; i < n; i++ {
			tp.StringData = append(tp.StringData, []byte{byte('a' + i)})
		}
	case "raw_data":
		tp.RawData = make([]byte, 2*n)
	}
	return tp
}

// holders: a stored tensor is observed as an initializer of a weight-only model and as the value of a
// Constant node.
type holderMap map[string][]byte

// each calls f for the holders in a fixed order (never range over the map: its order is random).
func (h holderMap) each(f func(holder string, data []byte)) {
	f("initializer", h["initializer"])
	f("constant", h["constant"])
}

func holderModels(tp *onnx.TensorProto) holderMap {
	out := holderMap{}
	// initializer
	g := &onnx.GraphProto{Name: "g"}
	t1 := proto.Clone(tp).(*onnx.TensorProto)
	t1.Name = "t"
	g.Initializer = []*onnx.TensorProto{t1}
	g.Output = []*onnx.ValueInfoProto{{Name: "t"}}
	mp := &onnx.ModelProto{IrVersion: 7, Graph: g, OpsetImport: []*onnx.OperatorSetIdProto{{Version: 13}}}
	b, _ := proto.MarshalOptions{Deterministic: true}.Marshal(mp)
	out["initializer"] = b
	// constant
	g2 := &onnx.GraphProto{Name: "g"}
	t2 := proto.Clone(tp).(*onnx.TensorProto)
	t2.Name = ""
	g2.Node = []*onnx.NodeProto{{OpType: "Constant", Output: []string{"t"}, Attribute: []*onnx.AttributeProto{{Name: "value", Type: onnx.AttributeProto_TENSOR, T: t2}}}}
	g2.Output = []*onnx.ValueInfoProto{{Name: "t"}}
	mp2 := &onnx.ModelProto{IrVersion: 7, Graph: g2, OpsetImport: []*onnx.OperatorSetIdProto{{Version: 13}}}
	b2, _ := proto.MarshalOptions{Deterministic: true}.Marshal(mp2)
	out["constant"] = b2
	return out
}

// cosModel: ConstantOfShape whose value attribute is the stored tensor; the target shape [2,2] is an initializer.
func cosModel(tp *onnx.TensorProto) []byte {
	g := &onnx.GraphProto{Name: "g"}
	t := proto.Clone(tp).(*onnx.TensorProto)
	t.Name = ""
	g.Initializer = []*onnx.TensorProto{{Name: "shape", DataType: int32(val.Int64), Dims: []int64{2}, Int64Data: []int64{2, 2}}}
	g.Node = []*onnx.NodeProto{{OpType: "ConstantOfShape", Input: []string{"shape"}, Output: []string{"filled"}, Attribute: []*onnx.AttributeProto{{Name: "value", Type: onnx.AttributeProto_TENSOR, T: t}}}}
	g.Output = []*onnx.ValueInfoProto{{Name: "filled"}}
	mp := &onnx.ModelProto{IrVersion: 7, Graph: g, OpsetImport: []*onnx.OperatorSetIdProto{{Version: 13}}}
	b, _ := proto.MarshalOptions{Deterministic: true}.Marshal(mp)
	return b
}

func (g *gen) families12() {
	thorough := g.thorough()
	readersFor := func(k int) []string {
		if thorough {
			return []string{"bytes", "file", "zip-store", "zip-deflate", "proto", "proto-empty", "file-fifo"}
		}
		// quick: every case through the byte reader, every 5th also through one other reader
		if k%5 == 0 {
			return []string{"bytes", []string{"file", "zip-store", "zip-deflate", "proto-empty", "proto", "file-fifo"}[(k/5)%6]}
		}
		return []string{"bytes"}
	}
	// V. fault-free: the repository's sample models must decode to what their bytes declare
	for _, b := range sampleBases(g.cfg.RepoDir) {
		if len(b.name) > 4 && b.name[len(b.name)-4:] == ".zip" {
			continue
		}
		for _, rd := range []string{"bytes", "file", "zip-store", "zip-deflate", "proto", "proto-empty", "file-fifo"} {
			g.bytesCase("fault-free-sample", b, nil, nil, rd, "")
		}
	}
	// T. the grid: 11 element types x 2 encodings x rank 0..4 x value patterns, fault-free and with every
	// tensor-granularity fault, as initializer and as Constant value.
	r := rng.New(rng.Mix(g.cfg.Seed, 0x12))
	k := 0
	var weightOnly []base
	for _, dt := range val.Supported {
		for _, raw := range []bool{false, true} {
			for rank, shapes := range shapesByRank {
				for si, shape := range shapes {
					nvar := 2
					if thorough {
						nvar = 4
					}
					for variant := 0; variant < nvar; variant++ {
						v := GenVal(r, dt, shape)
						if variant == 0 {
							// pure pattern sweep: cycle through the extremes
							ps := patterns(dt)
							for i := range v.Bits {
								v.Bits[i] = ps[(i+si)%len(ps)]
							}
						}
						in := &mb.Init{Name: "t", V: v, Raw: raw}
						tp0 := mb.TensorProto(in)
						enc := "typed"
						if raw {
							enc = "raw"
						}
						label := fmt.Sprintf("%s/%s/rank%d%v#%d", dt, enc, rank, shape, variant)
						holderModels(tp0).each(func(holder string, data []byte) {
							for _, rd := range readersFor(k) {
								g.rawCase("tensor-fault-free", label+"/"+holder, data, rd, true, "")
							}
							k++
							if variant == 0 && holder == "initializer" && len(data) <= 160 && rank >= 1 && rank <= 2 && si <= 1 {
								weightOnly = append(weightOnly, base{label, data})
							}
						})
						if val.NElems(shape) == 1 && variant <= 1 {
							// the same stored tensor as the fill value of ConstantOfShape
							g.rawCase("tensor-fault-free", label+"/constant_of_shape", cosModel(tp0), "bytes", true, "")
							for _, tf := range tensorFaults(tp0) {
								tp := proto.Clone(tp0).(*onnx.TensorProto)
								tf.mut(tp)
								if !g.mine() || g.stop {
									continue
								}
								g.run(&Case{Family: "tensor-fault", Base: label + "/constant_of_shape", Reader: "bytes", ZipFail: -1, Data: cosModel(tp), Note: tf.name,
									Faults: []medium.Fault{{Kind: "tensor:" + faultClass(tf.name)}}}, true)
							}
						}
						if variant > 1 {
							continue
						}
						for _, tf := range tensorFaults(tp0) {
							tp := proto.Clone(tp0).(*onnx.TensorProto)
							tf.mut(tp)
							holderModels(tp).each(func(holder string, data []byte) {
								for _, rd := range readersFor(k) {
									if !g.mine() || g.stop {
										continue
									}
									c := &Case{Family: "tensor-fault", Base: label + "/" + holder, Reader: rd, ZipFail: -1, Data: data, Note: tf.name,
										Faults: []medium.Fault{{Kind: "tensor:" + faultClass(tf.name)}}}
									switch rd {
									case "zip-store":
										c.Data = MakeZip(data, false)
									case "zip-deflate":
										c.Data = MakeZip(data, true)
									}
									g.run(c, true)
								}
								k++
							})
						}
					}
				}
			}
		}
	}
	// every ONNX data_type code the library cannot represent, with each typed field populated in turn
	for code := int32(0); code <= 22; code++ {
		sup := false
		for _, s := range val.Supported {
			if int32(s) == code {
				sup = true
			}
		}
		if sup {
			continue
		}
		for _, field := range []string{"float_data", "int32_data", "int64_data", "double_data", "uint64_data", "string_data", "raw_data", "none"} {
			for _, dims := range [][]int64{{3}, {1}, {2, 2}, {}} {
				n := 1
				for _, d := range dims {
					n *= int(d)
				}
				tp := populated(code, field, dims, n)
				holderModels(tp).each(func(holder string, data []byte) {
					if !g.mine() || g.stop {
						return
					}
					g.run(&Case{Family: "unrepresentable-type", Base: fmt.Sprintf("data_type=%d/%s/%v/%s", code, field, dims, holder), Reader: "bytes", ZipFail: -1, Data: data,
						Faults: []medium.Fault{{Kind: "tensor:unsupported-data_type"}}}, true)
				})
			}
		}
	}
	// large tensors: sizes around block boundaries a vectorised / parallel reader might use
	for _, dt := range val.Supported {
		for _, raw := range []bool{false, true} {
			for _, shape := range [][]int{{4097}, {17, 241}, {257, 255}, {1, 9, 911}, {65537}} {
				if !g.mine() || g.stop {
					continue
				}
				v := GenVal(r, dt, shape)
				tp := mb.TensorProto(&mb.Init{Name: "t", V: v, Raw: raw})
				holder := "initializer"
				if len(shape) == 2 {
					holder = "constant"
				}
				g.run(&Case{Family: "tensor-fault-free-large", Base: fmt.Sprintf("%s/raw=%v/%v/%s", dt, raw, shape, holder), Reader: "bytes", ZipFail: -1, Data: holderModels(tp)[holder]}, true)
			}
		}
	}
	// extents whose product, or whose product times the element width, overflows 64-bit arithmetic
	g.overflowFamily()
	// several initializers in one graph that look alike: identical payload bytes with other dims, other element
	// type or other encoding, small and large (4 KiB, 64 KiB, 256 KiB payloads); every one must decode to its own
	// declaration (de-duplication, interning or caching across initializers must not leak shape, type or values)
	g.pairFamily()
	// an initializer that is also listed in graph.input (older IR style) with a declaration that disagrees with the
	// tensor's own dims / element type: the weight is what its TensorProto says
	g.signatureFamily()
	g.foreignFieldFamily()
	g.nameFamily()
	g.contextFamily()
	g.metadataFamily()
	// U. byte-level single-fault spaces of small weight-only files, exhaustively
	for _, b := range weightOnly {
		g.singleFaultSweep("single-fault-weight-file", b, "bytes", 1)
	}
	// a multi-weight file and the generated chain/conv models, exhaustively as well
	for _, b := range genBases() {
		g.singleFaultSweep("single-fault-model-file", b, "bytes", 1)
	}
	// thorough: every PAIR of bit flips of the smallest weight files (compensating damage: an extent and a payload
	// length changed consistently is a different well-formed tensor and must load as exactly that)
	if thorough {
		for _, b := range weightOnly {
			if len(b.data) > 72 {
				continue
			}
			nb := len(b.data) * 8
			for i := 0; i < nb && !g.stop; i++ {
				for j := i + 1; j < nb; j++ {
					g.bytesCase("double-fault-weight-file", b, []medium.Fault{{Kind: medium.BitFlip, Off: i / 8, Bit: i % 8}, {Kind: medium.BitFlip, Off: j / 8, Bit: j % 8}}, nil, "bytes", "")
				}
			}
		}
	}
	// damaged archives: the entry's payload no longer matches its checksum; a loader that does not notice hands out
	// weights nobody published
	for bi, b := range weightOnly {
		if bi%3 == 0 {
			g.zipFamily(b)
		}
	}
	for _, b := range genBases() {
		g.zipFamily(b)
	}
	for bi, b := range weightOnly {
		if bi%7 == 0 {
			g.zipMultiFamily(b)
		}
	}
	// W. seeded multi-fault search and torn v1->v2 weight updates until the budget is used
	g.random12(weightOnly)
}

func faultClass(name string) string {
	switch {
	case len(name) >= 3 && name[:3] == "raw":
		return "raw-length"
	case len(name) >= 5 && name[:5] == "typed":
		return "typed-count"
	case len(name) >= 9 && name[:9] == "data_type":
		return "data_type"
	}
	return "dims"
}

func (g *gen) random12(weightOnly []base) {
	if len(weightOnly) == 0 {
		return
	}
	readers := []string{"bytes", "bytes", "file", "zip-store", "zip-deflate", "proto-empty", "proto"}
	for i := int64(g.cfg.W); !g.expired(); i += int64(g.cfg.NW) {
		r := rng.New(rng.Mix(g.cfg.Seed, 0x1212, uint64(i)))
		// publish v1 then v2 of a weight file (same type/shape, other values; or another type altogether)
		dt := val.Supported[r.Intn(len(val.Supported))]
		shapes := shapesByRank[r.Intn(len(shapesByRank))]
		shape := shapes[r.Intn(len(shapes))]
		v1 := GenVal(r, dt, shape)
		dt2 := dt
		if r.Chance(1, 3) {
			dt2 = val.Supported[r.Intn(len(val.Supported))]
		}
		v2 := GenVal(r, dt2, shape)
		in1 := &mb.Init{Name: "t", V: v1, Raw: r.Bool()}
		in2 := &mb.Init{Name: "t", V: v2, Raw: r.Bool()}
		holder := "initializer"
		if r.Chance(1, 3) {
			holder = "constant"
		}
		old := holderModels(mb.TensorProto(in1))[holder]
		cur := holderModels(mb.TensorProto(in2))[holder]
		nf := r.Intn(4) // 0 faults = the fault-free configuration of the same round trip
		var fs []medium.Fault
		for k := 0; k < nf; k++ {
			fs = append(fs, randomFault(r, len(cur), true))
		}
		if nf > 0 && r.Chance(1, 10) {
			fs = []medium.Fault{{Kind: medium.Stale}}
		}
		rd := readers[r.Intn(len(readers))]
		data, changed := medium.ApplyAll(fs, cur, old)
		c := &Case{Family: "publish-update", Base: fmt.Sprintf("%s%v->%s/%s", dt, shape, dt2, holder), Faults: fs, Reader: rd, ZipFail: -1, Data: data}
		switch rd {
		case "zip-store":
			c.Data = MakeZip(data, false)
		case "zip-deflate":
			c.Data = MakeZip(data, true)
		}
		g.idx++
		g.run(c, changed || nf == 0)
	}
}

// OverflowTensors: stored tensors whose declared element count (or byte size) wraps around in 64-bit
// arithmetic so that it seems to match a tiny or empty payload.
func OverflowTensors() []*onnx.TensorProto {
	var out []*onnx.TensorProto
	dimsets := [][]int64{
		{1 << 62}, {1<<62 + 1}, {1<<62 + 3}, {1 << 61}, {1<<61 + 1}, {1<<61 + 2}, {1 << 63 >> 1}, {1<<63 - 1},
		{1 << 31, 1 << 31}, {1 << 31, 1 << 30}, {1 << 32, 1 << 32}, {1 << 32, 1 << 32, 3}, {3, 1 << 62}, {1 << 33, 1 << 31, 1},
		{1 << 60, 4}, {1 << 60, 8}, {1 << 60, 16}, {1<<32 + 1, 1 << 32}, {-1 << 63}, {-1, -1}, {1 << 16, 1 << 16, 1 << 16, 1 << 16},
	}
	for _, dt := range val.Supported {
		for _, dims := range dimsets {
			for _, nbytes := range []int{0, 1, 4, 8, 12, 24} {
				out = append(out, &onnx.TensorProto{Name: "t", DataType: int32(dt), Dims: append([]int64{}, dims...), RawData: make([]byte, nbytes)})
			}
			// typed field with 0..3 elements
			for n := 1; n <= 3; n += 2 {
				tp := populated(int32(dt), map[val.DT]string{val.Float32: "float_data", val.Float64: "double_data", val.Int64: "int64_data", val.Uint64: "uint64_data", val.Uint32: "uint64_data"}[dt], dims, n)
				if len(tp.FloatData)+len(tp.DoubleData)+len(tp.Int64Data)+len(tp.Uint64Data) == 0 {
					tp = populated(int32(dt), "int32_data", dims, n)
				}
				out = append(out, tp)
			}
		}
	}
	return out
}

func (g *gen) overflowFamily() {
	for _, tp := range OverflowTensors() {
		holderModels(tp).each(func(holder string, data []byte) {
			if !g.mine() || g.stop {
				return
			}
			g.run(&Case{Family: "extent-overflow", Base: fmt.Sprintf("dt=%d dims=%v raw=%d/%s", tp.DataType, tp.Dims, len(tp.RawData), holder), Reader: "bytes", ZipFail: -1, Data: data,
				Faults: []medium.Fault{{Kind: "tensor:extent-overflow"}}}, true)
		})
	}
}

func (g *gen) pairFamily() {
	r := rng.New(rng.Mix(g.cfg.Seed, 0x9a12))
	mk := func(name string, dt val.DT, dims []int64, raw []byte) *onnx.TensorProto {
		return &onnx.TensorProto{Name: name, DataType: int32(dt), Dims: dims, RawData: raw}
	}
	for _, nbytes := range []int{64, 4096, 65536, 262144} {
		for _, fill := range []string{"zeros", "ones", "random"} {
			raw := make([]byte, nbytes)
			switch fill {
			case "ones":
				for i := 0; i+3 < nbytes; i += 4 {
					raw[i+2], raw[i+3] = 0x80, 0x3f
				}
			case "random":
				for i := range raw {
					raw[i] = byte(r.U64())
				}
				for i := 3; i < nbytes; i += 4 {
					raw[i] &= 0x3f // keep float32 readings finite-ish and away from NaN
				}
			}
			n4, n8 := int64(nbytes/4), int64(nbytes/8)
			variants := [][]*onnx.TensorProto{
				{mk("A", val.Float32, []int64{n4 / 16, 16}, raw), mk("B", val.Float32, []int64{16, n4 / 16}, raw)},
				{mk("A", val.Float32, []int64{n4}, raw), mk("B", val.Float32, []int64{1, n4}, raw), mk("C", val.Float32, []int64{n4, 1}, raw)},
				{mk("A", val.Float32, []int64{n4}, raw), mk("B", val.Int32, []int64{n4}, raw), mk("C", val.Uint32, []int64{n4}, raw)},
				{mk("A", val.Float64, []int64{n8}, raw), mk("B", val.Int64, []int64{2, n8 / 2}, raw), mk("C", val.Float32, []int64{n4}, raw)},
				{mk("A", val.Float32, []int64{n4}, raw), mk("B", val.Float32, []int64{3}, raw)},         // B malformed
				{mk("A", val.Float32, []int64{n4}, raw), mk("B", val.Float32, []int64{n4 + 1}, raw)},    // B malformed
				{mk("A", val.Float32, []int64{n4}, raw), mk("A", val.Float32, []int64{2, n4 / 2}, raw)}, // same name twice
				{mk("A", val.Uint8, []int64{int64(nbytes)}, raw), mk("B", val.Int8, []int64{int64(nbytes)}, raw), mk("C", val.Bool, []int64{4}, []byte{0, 1, 1, 0})},
			}
			for vi, tps := range variants {
				if !g.mine() || g.stop {
					continue
				}
				gp := &onnx.GraphProto{Name: "g"}
				for _, tp := range tps {
					gp.Initializer = append(gp.Initializer, tp)
					gp.Output = append(gp.Output, &onnx.ValueInfoProto{Name: tp.Name})
				}
				mp := &onnx.ModelProto{IrVersion: 7, Graph: gp, OpsetImport: []*onnx.OperatorSetIdProto{{Version: 13}}}
				data, _ := proto.MarshalOptions{Deterministic: true}.Marshal(mp)
				g.run(&Case{Family: "initializer-pairs", Base: fmt.Sprintf("%d bytes %s variant %d", nbytes, fill, vi), Reader: "bytes", ZipFail: -1, Data: data}, true)
			}
		}
	}
}

// nameFamily: several initializers whose NAMES are different strings but become equal under a normalisation a loader
// might be tempted to apply (white space trimming, case folding, Unicode NFC/NFD, separators, a ":0" suffix); each
// carries its own values and must come back under its own name with them.
func (g *gen) nameFamily() {
	groups := [][]string{
		{"caf\u00e9", "cafe\u0301", "caf\u00e9 ", " caf\u00e9", "CAF\u00c9", "Caf\u00e9", "caf\u00e9\u200d"},
		{"Stra\u00dfe", "STRASSE", "stra\u00dfe", "\u017ftra\u00dfe", "strasse", "Strasse"},
		{"w", "W", "w ", " w", "w\t", "w\n", "w\x00", "\ufeffw"},
		{"a/b", "a\\b", "a.b", "a:b", "a_b", "a b", "a//b", "/a/b", "a/b/"},
		{"layer.0.weight", "layer_0_weight", "layer/0/weight", "layer.0.weight:0", "layer.0.weight:1", "layer.00.weight", "Layer.0.Weight"},
		{"K", "k", "\u212a", "\u041a", "\u039a"},
		{"1", "01", "1.0", "+1", "1 ", "\uff11"},
	}
	for gi, names := range groups {
		for _, dt := range []val.DT{val.Float32, val.Int64, val.Float64} {
			for _, raw := range []bool{true, false} {
				for rot := 0; rot < 2; rot++ {
					if !g.mine() || g.stop {
						continue
					}
					gp := &onnx.GraphProto{Name: "g"}
					for i := range names {
						name := names[(i+rot*3)%len(names)]
						v := &val.V{DT: dt, Shape: []int{2}, Bits: make([]uint64, 2)}
						for k := range v.Bits {
							x := float64(10*(i+1) + k)
							switch dt {
							case val.Float32:
								v.Bits[k] = uint64(math.Float32bits(float32(x)))
							case val.Float64:
								v.Bits[k] = math.Float64bits(x)
							default:
								v.Bits[k] = uint64(int64(x))
							}
						}
						tp := mb.TensorProto(&mb.Init{Name: name, V: v, Raw: raw})
						gp.Initializer = append(gp.Initializer, tp)
						gp.Output = append(gp.Output, &onnx.ValueInfoProto{Name: name})
					}
					mp := &onnx.ModelProto{IrVersion: 7, Graph: gp, OpsetImport: []*onnx.OperatorSetIdProto{{Version: 13}}}
					data, _ := proto.MarshalOptions{Deterministic: true}.Marshal(mp)
					g.run(&Case{Family: "initializer-names", Base: fmt.Sprintf("group %d %s raw=%v rot=%d", gi, dt, raw, rot), Reader: "bytes", ZipFail: -1, Data: data}, true)
				}
			}
		}
	}
}

// contextFamily: a well-formed weight in a graph that gives a loader REASONS to touch it after decoding: a node that
// also consumes a graph input declared with the other floating precision; quantization annotations that name it, or
// name one-element tensors as its scale and zero point; a training_info entry that would update it.
func (g *gen) contextFamily() {
	r := rng.New(rng.Mix(g.cfg.Seed, 0xc0c0))
	for _, wdt := range []val.DT{val.Float32, val.Float64, val.Int64, val.Uint8, val.Int8} {
		for _, raw := range []bool{true, false} {
			for variant := 0; variant < 8; variant++ {
				if !g.mine() || g.stop {
					continue
				}
				w := GenVal(r, wdt, []int{2, 3})
				if wdt == val.Float64 {
					w.Bits[0], w.Bits[1] = math.Float64bits(0.1), math.Float64bits(1e-60)
				}
				m := &mb.Model{Opset: 13, Inits: []mb.Init{{Name: "W", V: w, Raw: raw}}, Outputs: []mb.IO{{Name: "W", NoShape: true}}}
				note := ""
				switch variant {
				case 0, 1, 2:
					// x declared FLOAT / DOUBLE / INT32 meets W in one node
					xdt := []val.DT{val.Float32, val.Float64, val.Int32}[variant]
					m.Inputs = []mb.IO{{Name: "x", DT: xdt, Shape: []int64{0, 3}}}
					m.Nodes = []mb.Node{{Op: []string{"Add", "Mul", "MatMul"}[variant], In: []string{"x", "W"}, Out: []string{"y"}}}
					m.Outputs = append(m.Outputs, mb.IO{Name: "y", NoShape: true})
					note = fmt.Sprintf("consumed with input declared %s", xdt)
				case 3, 4:
					// quantization annotation naming W, with one-element scale / zero point initializers of rank 1 and 2
					sh := [][]int{{1}, {1, 1}}[variant-3]
					m.Inits = append(m.Inits, mb.Init{Name: "W_scale", V: f32(sh, 0.5), Raw: raw}, mb.Init{Name: "W_zero_point", V: GenVal(r, wdt, sh), Raw: !raw})
					m.Outputs = append(m.Outputs, mb.IO{Name: "W_scale", NoShape: true}, mb.IO{Name: "W_zero_point", NoShape: true})
					m.Quant = []mb.Quant{{Tensor: "W", Scale: "W_scale", ZeroPoint: "W_zero_point"}}
					note = fmt.Sprintf("quantization annotation, parameters of shape %v", sh)
				case 5:
					m.Quant = []mb.Quant{{Tensor: "W", Scale: "W", ZeroPoint: "W"}, {Tensor: "nothing", Scale: "W"}}
					note = "quantization annotation naming the weight as its own scale"
				case 6:
					if wdt != val.Float32 {
						continue
					}
					m.Training = []string{"W"}
					note = "training_info with an update binding for the weight"
				default:
					m.Functions = []mb.Function{{Name: "W", Body: []string{"Relu"}}}
					note = "a model-local function named like the weight"
				}
				g.run(&Case{Family: "weight-in-context", Base: fmt.Sprintf("%s raw=%v %s", wdt, raw, note), Reader: "bytes", ZipFail: -1, Data: m.Bytes()}, true)
			}
		}
	}
}

func (g *gen) signatureFamily() {
	r := rng.New(rng.Mix(g.cfg.Seed, 0x5167))
	for _, dt := range []val.DT{val.Float32, val.Int64, val.Uint8, val.Float64, val.Bool} {
		for _, raw := range []bool{true, false} {
			v := GenVal(r, dt, []int{2, 3})
			tp := mb.TensorProto(&mb.Init{Name: "t", V: v, Raw: raw})
			decls := []struct {
				note  string
				shape []int64
				et    int32
				typed bool
			}{
				{"same", []int64{2, 3}, int32(dt), true}, {"transposed", []int64{3, 2}, int32(dt), true}, {"flat", []int64{6}, int32(dt), true},
				{"rank3", []int64{1, 2, 3}, int32(dt), true}, {"other count", []int64{2, 4}, int32(dt), true}, {"dynamic", []int64{0, 3}, int32(dt), true},
				{"all dynamic", []int64{0, 0}, int32(dt), true}, {"scalar", []int64{}, int32(dt), true}, {"other element type", []int64{2, 3}, int32(val.Int32), true}, {"declared FLOAT", []int64{2, 3}, int32(val.Float32), true}, {"declared DOUBLE", []int64{2, 3}, int32(val.Float64), true}, {"declared FLOAT16", []int64{2, 3}, 10, true},
				{"undefined element type", []int64{2, 3}, 0, true}, {"no type", nil, 0, false}, {"negative", []int64{-2, -3}, int32(dt), true}, {"huge", []int64{1 << 40, 3}, int32(dt), true},
			}
			for _, d := range decls {
				if !g.mine() || g.stop {
					continue
				}
				gp := &onnx.GraphProto{Name: "g", Initializer: []*onnx.TensorProto{proto.Clone(tp).(*onnx.TensorProto)}, Output: []*onnx.ValueInfoProto{{Name: "t"}}}
				vi := &onnx.ValueInfoProto{Name: "t"}
				if d.typed {
					sh := &onnx.TensorShapeProto{}
					for i, e := range d.shape {
						dim := &onnx.TensorShapeProto_Dimension{}
						if e == 0 {
							dim.Value = &onnx.TensorShapeProto_Dimension_DimParam{DimParam: fmt.Sprintf("d%d", i)}
						} else {
							dim.Value = &onnx.TensorShapeProto_Dimension_DimValue{DimValue: e}
						}
						sh.Dim = append(sh.Dim, dim)
					}
					vi.Type = &onnx.TypeProto{Value: &onnx.TypeProto_TensorType{TensorType: &onnx.TypeProto_Tensor{ElemType: d.et, Shape: sh}}}
				}
				for _, place := range []string{"input", "value_info", "output", "input+value_info"} {
					gp2 := proto.Clone(gp).(*onnx.GraphProto)
					switch place {
					case "input":
						gp2.Input = []*onnx.ValueInfoProto{vi}
					case "value_info":
						gp2.ValueInfo = []*onnx.ValueInfoProto{vi}
					case "output":
						gp2.Output = []*onnx.ValueInfoProto{vi}
					default:
						gp2.Input = []*onnx.ValueInfoProto{{Name: "t"}}
						gp2.ValueInfo = []*onnx.ValueInfoProto{vi}
					}
					mp := &onnx.ModelProto{IrVersion: 3, Graph: gp2, OpsetImport: []*onnx.OperatorSetIdProto{{Version: 13}}}
					data, _ := proto.MarshalOptions{Deterministic: true}.Marshal(mp)
					g.run(&Case{Family: "initializer-vs-signature", Base: fmt.Sprintf("%s raw=%v declared %s in graph.%s", dt, raw, d.note, place), Reader: "bytes", ZipFail: -1, Data: data}, true)
				}
			}
		}
	}
}

// foreignFieldFamily: a tensor of a supported element type whose values sit ONLY in a typed field that belongs to
// another element type (a DOUBLE tensor carrying float_data, a FLOAT tensor carrying double_data, an INT64 tensor
// carrying int32_data ...): nothing is stored for the declared type, so the count cannot match; a loader that helps
// itself from the foreign field loads different values.
func (g *gen) foreignFieldFamily() {
	r := rng.New(rng.Mix(g.cfg.Seed, 0xf0e1))
	fields := []string{"float_data", "double_data", "int32_data", "int64_data", "uint64_data", "string_data"}
	for _, dt := range val.Supported {
		for _, field := range fields {
			for _, dims := range [][]int64{{3}, {2, 2}, {}, {1}} {
				if !g.mine() || g.stop {
					continue
				}
				n := 1
				for _, d := range dims {
					n *= int(d)
				}
				tp := &onnx.TensorProto{Name: "t", DataType: int32(dt), Dims: append([]int64{}, dims...)}
				for i := 0; i < n; i++ {
					// values that do not survive a conversion between the floating types, plus ordinary ones
					switch field {
					case "float_data":
						tp.FloatData = append(tp.FloatData, []float32{0.1, 16777216, -3.5, 1e-40}[(i+r.Intn(4))%4])
					case "double_data":
						tp.DoubleData = append(tp.DoubleData, []float64{16777217, 1e300, 0.1, -1.0000000000000002}[(i+r.Intn(4))%4])
					case "int32_data":
						tp.Int32Data = append(tp.Int32Data, []int32{1, -1, 300, 70000}[(i+r.Intn(4))%4])
					case "int64_data":
						tp.Int64Data = append(tp.Int64Data, []int64{1, -1, 1 << 40, 255}[(i+r.Intn(4))%4])
					case "uint64_data":
						tp.Uint64Data = append(tp.Uint64Data, []uint64{1, 1 << 63, 255, 65536}[(i+r.Intn(4))%4])
					case "string_data":
						tp.StringData = append(tp.StringData, []byte("1.5"))
					}
				}
				if _, other := refdecTypedLens(tp); other == 0 {
					continue // the field is the declared type's own carrier
				}
				holderModels(tp).each(func(holder string, data []byte) {
					g.run(&Case{Family: "payload-in-foreign-field", Base: fmt.Sprintf("%s/%s/%v/%s", dt, field, dims, holder), Reader: "bytes", ZipFail: -1, Data: data}, true)
				})
			}
		}
	}
}

// refdecTypedLens: (elements in the declared type's own typed field, elements in all other typed fields).
func refdecTypedLens(tp *onnx.TensorProto) (own, other int) {
	return refdec.TypedLens(tp)
}

// metadataFamily: the same well-formed weights under everything a model file says ABOUT itself - who produced it,
// versions, documentation, metadata properties, graph names. None of it may change how a weight is decoded.
func (g *gen) metadataFamily() {
	r := rng.New(rng.Mix(g.cfg.Seed, 0x3e7a))
	producers := []string{"skl2onnx", "onnxmltools", "pytorch", "tf2onnx", "keras2onnx", "onnx-caffe2", "CNTK", "paddle2onnx", "MATLAB Deep Learning Toolbox Converter for ONNX Model Format",
		"onnx.quantize", "onnxruntime.transformers", "sklearn-onnx", "OnnxMLTools", "lightgbm", "xgboost", "catboost", "Microsoft.ML", "WinMLTools", "coremltools", "onnx-example", "", "gonnx", "\x00", "skl2onnx\n"}
	type variant struct {
		note string
		f    func(mp *onnx.ModelProto)
	}
	var vs []variant
	for _, p := range producers {
		p := p
		vs = append(vs, variant{"producer_name=" + fmt.Sprintf("%q", p), func(mp *onnx.ModelProto) { mp.ProducerName = p }})
	}
	for _, pv := range []string{"0.0.1", "1.13.1", "2.0", "1.7.0+cu101", ""} {
		pv := pv
		vs = append(vs, variant{"producer_version=" + pv, func(mp *onnx.ModelProto) { mp.ProducerName = "pytorch"; mp.ProducerVersion = pv }})
	}
	for _, iv := range []int64{0, 1, 2, 3, 4, 5, 6, 7, 8, 9, 10, 11, 1 << 32, -1} {
		iv := iv
		vs = append(vs, variant{fmt.Sprintf("ir_version=%d", iv), func(mp *onnx.ModelProto) { mp.IrVersion = iv }})
	}
	for _, d := range []string{"ai.onnx", "ai.onnx.ml", "com.microsoft", "org.pytorch", "quantized", "float16", "double"} {
		d := d
		vs = append(vs, variant{"domain=" + d, func(mp *onnx.ModelProto) { mp.Domain = d }})
	}
	for _, mv := range []int64{1, 2, 1 << 40, -1} {
		mv := mv
		vs = append(vs, variant{fmt.Sprintf("model_version=%d", mv), func(mp *onnx.ModelProto) { mp.ModelVersion = mv }})
	}
	for _, kv := range [][2]string{{"precision", "float32"}, {"precision", "fp16"}, {"dtype", "float"}, {"quantized", "true"}, {"endianness", "big"}, {"byte_order", "big"}, {"layout", "column_major"}, {"weights", "transposed"}, {"onnx.infer", "strict"}, {"", ""}} {
		kv := kv
		vs = append(vs, variant{"metadata_props " + kv[0] + "=" + kv[1], func(mp *onnx.ModelProto) {
			mp.MetadataProps = []*onnx.StringStringEntryProto{{Key: kv[0], Value: kv[1]}}
		}})
	}
	for _, ds := range []string{"converted to float32", "big-endian", "fp16", strings.Repeat("x", 5000)} {
		ds := ds
		vs = append(vs, variant{"doc_strings", func(mp *onnx.ModelProto) {
			mp.DocString = ds
			mp.Graph.DocString = ds
			mp.Graph.Initializer[0].DocString = ds
		}})
	}
	for _, gn := range []string{"", "main_graph", "torch-jit-export", "skl2onnx", "float16_graph", "quantized"} {
		gn := gn
		vs = append(vs, variant{"graph name " + gn, func(mp *onnx.ModelProto) { mp.Graph.Name = gn }})
	}
	vs = append(vs, variant{"second opset import ai.onnx.ml 2", func(mp *onnx.ModelProto) {
		mp.OpsetImport = append(mp.OpsetImport, &onnx.OperatorSetIdProto{Domain: "ai.onnx.ml", Version: 2})
	}})
	vs = append(vs, variant{"opset domain spelled ai.onnx", func(mp *onnx.ModelProto) { mp.OpsetImport[0].Domain = "ai.onnx" }})
	for _, dt := range []val.DT{val.Float32, val.Float64, val.Int64, val.Int8, val.Uint64, val.Bool, val.Int32} {
		for _, raw := range []bool{true, false} {
			for _, v := range vs {
				if !g.mine() || g.stop {
					continue
				}
				x := GenVal(r, dt, []int{2, 3})
				if dt == val.Float64 {
					// values that do not survive float32
					x.Bits[0] = math.Float64bits(1e300)
					x.Bits[1] = math.Float64bits(-1.0000000000000002)
					x.Bits[2] = math.Float64bits(16777217)
				}
				tp := mb.TensorProto(&mb.Init{Name: "t", V: x, Raw: raw})
				gp := &onnx.GraphProto{Name: "g", Initializer: []*onnx.TensorProto{tp}, Output: []*onnx.ValueInfoProto{{Name: "t"}}}
				mp := &onnx.ModelProto{IrVersion: 7, Graph: gp, OpsetImport: []*onnx.OperatorSetIdProto{{Version: 13}}}
				v.f(mp)
				data, _ := proto.MarshalOptions{Deterministic: true}.Marshal(mp)
				g.run(&Case{Family: "model-metadata", Base: fmt.Sprintf("%s raw=%v %s", dt, raw, v.note), Reader: "bytes", ZipFail: -1, Data: data}, true)
			}
		}
	}
}
