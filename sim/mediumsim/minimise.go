package mediumsim

import (
	"encoding/json"
	"fmt"

	"verifsim/evid"
)

// Minimise shrinks the damaged byte string itself (the replay's authoritative content), independent of
// how the faults produced it: drop the tail, drop blocks, zero bytes — keeping each step only while a fresh
// process still shows the same violation signature. Zip and file cases are first reduced to the plain byte
// reader when the violation persists there.
func Minimise(prop string, v evid.Violation, still func(json.RawMessage) bool) (json.RawMessage, []string) {
	var c Case
	if err := json.Unmarshal(v.Case, &c); err != nil {
		return nil, nil
	}
	var log []string
	try := func(n Case) bool {
		raw, _ := json.Marshal(&n)
		return still(raw)
	}
	changed := false
	// the prelude (what the worker process read before): drop it whole, else entry by entry
	if len(c.Prelude) > 0 {
		n := c
		n.Prelude = nil
		if try(n) {
			log = append(log, fmt.Sprintf("dropped the prelude of %d earlier reads (violation does not depend on process history)", len(c.Prelude)))
			c = n
			changed = true
		} else {
			for i := 0; i < len(c.Prelude); {
				n := c
				n.Prelude = append(append([]Case{}, c.Prelude[:i]...), c.Prelude[i+1:]...)
				if try(n) {
					log = append(log, fmt.Sprintf("dropped prelude read %d", i))
					c = n
					changed = true
				} else {
					i++
				}
			}
			log = append(log, fmt.Sprintf("violation needs %d earlier read(s) in the same process", len(c.Prelude)))
		}
	}
	if c.Reader != "bytes" && c.Reader != "" {
		if data, ok := modelBytes(&c); ok {
			n := c
			n.Reader, n.Data, n.ZipFail, n.ZipMode = "bytes", data, -1, ""
			if try(n) {
				log = append(log, fmt.Sprintf("reader %s -> bytes", c.Reader))
				c = n
				changed = true
			}
		}
	}
	if c.Reader == "bytes" || c.Reader == "" {
		budget := 120
		// shorten from the end
		for step := len(c.Data) / 2; step >= 1 && budget > 0; step /= 2 {
			for len(c.Data) > step && budget > 0 {
				n := c
				n.Data = append([]byte{}, c.Data[:len(c.Data)-step]...)
				budget--
				if !try(n) {
					break
				}
				log = append(log, fmt.Sprintf("dropped last %d bytes", step))
				c = n
				changed = true
			}
		}
		// remove interior blocks
		for step := len(c.Data) / 2; step >= 1 && budget > 0; step /= 2 {
			for off := 0; off+step <= len(c.Data) && budget > 0; {
				n := c
				n.Data = append(append([]byte{}, c.Data[:off]...), c.Data[off+step:]...)
				budget--
				if try(n) {
					log = append(log, fmt.Sprintf("removed %d bytes at %d", step, off))
					c = n
					changed = true
				} else {
					off += step
				}
			}
		}
	}
	if !changed {
		return nil, nil
	}
	c.Note += " (minimised)"
	raw, _ := json.Marshal(&c)
	return raw, log
}
