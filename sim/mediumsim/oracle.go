// Package mediumsim is the "model at rest" engine: a publisher writes model
// files, a simulated medium damages them, and the real gonnx readers load what is
// left. It decides C18 (loading never panics; unsupported opsets/operators are
// refused with the sentinel errors) and C12 (weights decode exactly or are refused).
package mediumsim

import (
	"archive/zip"
	"bytes"
	"encoding/json"
	"errors"
	"fmt"
	"math"
	"os"
	"path/filepath"
	"regexp"
	"runtime/debug"
	"strings"
	"syscall"
	"time"

	gonnx "github.com/advancedclimatesystems/gonnx"
	"github.com/advancedclimatesystems/gonnx/onnx"
	"github.com/advancedclimatesystems/gonnx/ops"
	"github.com/advancedclimatesystems/gonnx/ops/opset13"
	"github.com/advancedclimatesystems/gonnx/verifsim"
	"google.golang.org/protobuf/proto"
	"gorgonia.org/tensor"

	"verifsim/evid"
	"verifsim/medium"
	"verifsim/refdec"
	"verifsim/val"
)

// Case is one simulated read: the bytes on the medium after the faults, and the reader used.
// Data is authoritative for replay; Base/Faults document how it was produced.
type Case struct {
	Family string         `json:"family"`
	Base   string         `json:"base"`
	Faults []medium.Fault `json:"faults,omitempty"`
	Note   string         `json:"note,omitempty"`
	Reader string         `json:"reader"` // bytes | file | zip-store | zip-deflate
	// ZipFail >= 0 injects a reader fault under archive/zip at that archive offset.
	ZipFail int64  `json:"zip_fail"`
	ZipLen  int64  `json:"zip_len,omitempty"` // length of the bad region (0 = to the end)
	ZipMode string `json:"zip_mode,omitempty"`
	Data    []byte `json:"data"`
	// Prelude: reads the same worker process performed immediately before this one. Only present on recorded
	// violations; replay performs them first, so that a violation which depends on process-level state left
	// behind by earlier loads (a package-level cache, say) reproduces in a fresh process. Minimisation drops
	// whatever part of it is not needed.
	Prelude []Case `json:"prelude,omitempty"`
	// Sidecars: other files the medium holds next to the model file (external tensor data); only the file reader
	// shows them.
	Sidecars map[string][]byte `json:"sidecars,omitempty"`
	// Env: environment variables (of those the code under test reads) set around this case.
	Env map[string]string `json:"env,omitempty"`
	// Clock: simulated time moved forward by this many nanoseconds before the load (and before its k-th follow-up
	// action: Run, second load); only drawn when the tree reads the clock.
	Clock []int64 `json:"clock,omitempty"`
}

var fixedMtime = time.Unix(1_000_000_000, 0)

// Outcome of a guarded call.
type outcome struct {
	kind  string // ok | error | panic
	err   error
	pmsg  string
	frame string
}

var digits = regexp.MustCompile(`[0-9]+`)

// gonnxFrame extracts the innermost gonnx function on a panic stack.
func gonnxFrame(stack string) string {
	lines := strings.Split(stack, "\n")
	for _, l := range lines {
		if strings.HasPrefix(l, "github.com/advancedclimatesystems/gonnx") {
			f := l
			if i := strings.LastIndex(f, "("); i > 0 {
				f = f[:i]
			}
			f = strings.TrimPrefix(f, "github.com/advancedclimatesystems/gonnx")
			f = strings.TrimPrefix(f, "/")
			if strings.Contains(f, "VerifState") {
				continue
			}
			return f
		}
	}
	return "?"
}

func normMsg(v interface{}) string {
	s := fmt.Sprint(v)
	if i := strings.IndexAny(s, "(["); i > 0 {
		s = s[:i]
	}
	s = strings.TrimSpace(digits.ReplaceAllString(s, "N"))
	if len(s) > 48 {
		s = s[:48]
	}
	return strings.ReplaceAll(s, " ", "_")
}

func guard(f func() error) (o outcome) {
	defer func() {
		if r := recover(); r != nil {
			o = outcome{kind: "panic", pmsg: normMsg(r), frame: gonnxFrame(string(debug.Stack()))}
		}
	}()
	if err := f(); err != nil {
		return outcome{kind: "error", err: err}
	}
	return outcome{kind: "ok"}
}

// Env carries what the readers need besides the bytes.
type Env struct {
	Scratch string // directory for the file reader
	Stats   *evid.Stats
}

// load reads the case through the real gonnx reader it names.
func load(c *Case, env *Env) (m *gonnx.Model, o outcome) {
	switch c.Reader {
	case "", "bytes":
		o = guard(func() (err error) { m, err = gonnx.NewModelFromBytes(c.Data); return })
	case "proto", "proto-empty":
		// the caller parses the file itself and hands gonnx the message (gonnx.NewModel is exported for that). For
		// "proto-empty" the message is in the state Go code that BUILDS such messages leaves it in: repeated fields
		// and byte fields that hold nothing are empty, non-nil slices (make([]float32, 0, n), []byte{}) - the same
		// message as far as protobuf is concerned (proto.Equal), a different one to code that tests `!= nil`.
		mp := &onnx.ModelProto{}
		if err := proto.Unmarshal(c.Data, mp); err != nil {
			return nil, outcome{kind: "error", err: errors.New("caller's own protobuf parser refused the bytes")}
		}
		if c.Reader == "proto-empty" {
			emptySlices(mp.GetGraph(), 0)
		}
		// ... and builds TWO Models from the one message (one per worker, say); the second is the one observed: building
		// the first must not have changed what the message says
		o = guard(func() (err error) { _, err = gonnx.NewModel(mp); return })
		if o.kind == "ok" {
			tick(c, 2)
			o = guard(func() (err error) { m, err = gonnx.NewModel(mp); return })
		}
	case "file":
		p := filepath.Join(env.Scratch, fmt.Sprintf("m-%d.onnx", os.Getpid()))
		if len(c.Sidecars) > 0 {
			dir := filepath.Join(env.Scratch, fmt.Sprintf("d-%d", os.Getpid()))
			os.RemoveAll(dir)
			if err := os.MkdirAll(dir, 0o755); err != nil {
				panic(err)
			}
			defer os.RemoveAll(dir)
			for name, data := range c.Sidecars {
				if name == "" || strings.Contains(name, "..") || filepath.IsAbs(name) {
					continue // the medium only holds files inside the model's directory
				}
				sp := filepath.Join(dir, name)
				os.MkdirAll(filepath.Dir(sp), 0o755)
				os.WriteFile(sp, data, 0o644)
				os.Chtimes(sp, fixedMtime, fixedMtime)
			}
			p = filepath.Join(dir, "model.onnx")
		}
		if err := os.WriteFile(p, c.Data, 0o644); err != nil {
			panic(err)
		}
		// The medium preserves timestamps the way `rsync -t`, `cp -p`, tar extraction and reproducible builds do: every
		// version of the file carries the same modification time, whatever it contains.
		os.Chtimes(p, fixedMtime, fixedMtime)
		o = guard(func() (err error) { m, err = gonnx.NewModelFromFile(p); return })
		os.Remove(p)
	case "file-fifo":
		// the path is not a regular file but a stream (a named pipe, /dev/stdin, a process substitution): its size is
		// unknown until it has been read to the end. A writer delivers the bytes once the reader has opened the path.
		p := filepath.Join(env.Scratch, fmt.Sprintf("m-%d.fifo", os.Getpid()))
		os.Remove(p)
		if err := syscall.Mkfifo(p, 0o600); err != nil {
			return nil, outcome{kind: "error", err: errors.New("medium cannot provide a named pipe")}
		}
		done := make(chan struct{})
		go func() {
			defer close(done)
			w, err := os.OpenFile(p, os.O_WRONLY, 0) // blocks until a reader opens the pipe
			if err != nil {
				return
			}
			w.Write(c.Data) // EPIPE if the reader went away early
			w.Close()
		}()
		o = guard(func() (err error) { m, err = gonnx.NewModelFromFile(p); return })
		// a reader that never opened the path leaves the writer waiting: release it
		select {
		case <-done:
		case <-time.After(20 * time.Millisecond):
			if r, err := os.OpenFile(p, os.O_RDONLY|syscall.O_NONBLOCK, 0); err == nil {
				<-done
				r.Close()
			} else {
				<-done
			}
		}
		os.Remove(p)
	case "file-missing", "file-dir":
		// the medium has no such file / offers a directory: the reader fault of a lost or misplaced model file
		p := filepath.Join(env.Scratch, fmt.Sprintf("no-such-model-%d.onnx", os.Getpid()))
		if c.Reader == "file-dir" {
			p = env.Scratch
		}
		o = guard(func() (err error) { m, err = gonnx.NewModelFromFile(p); return })
		if o.kind == "ok" {
			o = outcome{kind: "panic", pmsg: "a_Model_was_constructed_from_a_missing_file_or_a_directory", frame: "NewModelFromFile"}
		}
	case "zip-multi":
		// an archive with several entries (directories, other files, oddly named entries, the model): the caller hands
		// EVERY entry to NewModelFromZipFile in turn (it does not know which one is the model); none may panic, and the
		// entry that is the model - the first whose name ends in .onnx - is the one observed
		zr, err := zip.NewReader(bytes.NewReader(c.Data), int64(len(c.Data)))
		if err != nil || len(zr.File) == 0 {
			return nil, outcome{kind: "error", err: errors.New("zip: archive refused before gonnx")}
		}
		pick := pickEntry(zr)
		for i, f := range zr.File {
			var mi *gonnx.Model
			oi := guard(func() (err error) { mi, err = gonnx.NewModelFromZipFile(f); return })
			if oi.kind == "panic" {
				return nil, oi
			}
			if i == pick {
				m, o = mi, oi
			}
		}
	case "zip-store", "zip-deflate":
		// c.Data is the archive as it sits on the medium (already damaged, if so).
		ra := &medium.FaultyReaderAt{Data: c.Data, FailFrom: c.ZipFail, FailLen: c.ZipLen, Mode: c.ZipMode}
		var zr *zip.Reader
		o = guard(func() (err error) { zr, err = zip.NewReader(ra, int64(len(c.Data))); return })
		if o.kind != "ok" {
			// archive/zip refused the archive: gonnx never saw it.
			if o.kind == "panic" {
				o.frame = "archive/zip"
			}
			if env.Stats != nil {
				env.Stats.Probe("zip_reader_refused_archive")
			}
			return nil, outcome{kind: "error", err: errors.New("zip: archive refused before gonnx")}
		}
		if len(zr.File) == 0 {
			return nil, outcome{kind: "error", err: errors.New("zip: no entries")}
		}
		o = guard(func() (err error) { m, err = gonnx.NewModelFromZipFile(zr.File[0]); return })
		if ra.Fired > 0 && env.Stats != nil {
			env.Stats.Fault("zip_readat_fault_fired")
		}
	default:
		panic("unknown reader " + c.Reader)
	}
	return m, o
}

// emptySlices turns every nil repeated/bytes payload field of every tensor in the graph (initializers, tensor
// attributes, subgraphs) into an empty non-nil slice.
func emptySlices(g *onnx.GraphProto, depth int) {
	if g == nil || depth > 8 {
		return
	}
	fix := func(tp *onnx.TensorProto) {
		if tp == nil {
			return
		}
		if tp.FloatData == nil {
			tp.FloatData = make([]float32, 0, 4)
		}
		if tp.DoubleData == nil {
			tp.DoubleData = make([]float64, 0, 4)
		}
		if tp.Int32Data == nil {
			tp.Int32Data = make([]int32, 0, 4)
		}
		if tp.Int64Data == nil {
			tp.Int64Data = make([]int64, 0, 4)
		}
		if tp.Uint64Data == nil {
			tp.Uint64Data = make([]uint64, 0, 4)
		}
		if tp.StringData == nil {
			tp.StringData = [][]byte{}
		}
		if tp.RawData == nil {
			tp.RawData = []byte{}
		}
		if tp.ExternalData == nil {
			tp.ExternalData = []*onnx.StringStringEntryProto{}
		}
	}
	for _, tp := range g.GetInitializer() {
		fix(tp)
	}
	for _, n := range g.GetNode() {
		for _, a := range n.GetAttribute() {
			fix(a.GetT())
			for _, t := range a.GetTensors() {
				fix(t)
			}
			emptySlices(a.GetG(), depth+1)
		}
	}
}

// MakeZip wraps model bytes in a one-entry archive.
func MakeZip(data []byte, deflate bool) []byte {
	var buf bytes.Buffer
	zw := zip.NewWriter(&buf)
	method := zip.Store
	if deflate {
		method = zip.Deflate
	}
	w, err := zw.CreateHeader(&zip.FileHeader{Name: "model.onnx", Method: method})
	if err != nil {
		panic(err)
	}
	if _, err := w.Write(data); err != nil {
		panic(err)
	}
	if err := zw.Close(); err != nil {
		panic(err)
	}
	return buf.Bytes()
}

// modelBytes returns the bytes gonnx's decoder is expected to have seen, when that can be
// known independently of gonnx: for the zip readers the entry is extracted with archive/zip
// over a fault-free view of the same archive bytes.
func modelBytes(c *Case) ([]byte, bool) {
	switch c.Reader {
	case "", "bytes", "file", "file-fifo", "proto", "proto-empty":
		return c.Data, true
	case "file-missing", "file-dir":
		return nil, false
	}
	if c.ZipFail >= 0 {
		return nil, false
	}
	zr, err := zip.NewReader(bytes.NewReader(c.Data), int64(len(c.Data)))
	if err != nil || len(zr.File) == 0 {
		return nil, false
	}
	idx := 0
	if c.Reader == "zip-multi" {
		idx = pickEntry(zr)
	}
	rc, err := zr.File[idx].Open()
	if err != nil {
		return nil, false
	}
	defer rc.Close()
	var b bytes.Buffer
	if _, err := b.ReadFrom(rc); err != nil {
		return nil, false
	}
	return b.Bytes(), true
}

// entryIsDirectory: the archive entry handed to gonnx is a directory entry (name ends in "/").
func entryIsDirectory(c *Case) bool {
	if c.Reader != "zip-store" && c.Reader != "zip-deflate" && c.Reader != "zip-multi" {
		return false
	}
	zr, err := zip.NewReader(bytes.NewReader(c.Data), int64(len(c.Data)))
	if err != nil || len(zr.File) == 0 {
		return false
	}
	idx := 0
	if c.Reader == "zip-multi" {
		idx = pickEntry(zr)
	}
	return strings.HasSuffix(zr.File[idx].Name, "/")
}

// tick applies the k-th clock jump of the case.
func tick(c *Case, k int) {
	if len(c.Clock) > 0 {
		verifsim.AdvanceClock(time.Duration(c.Clock[k%len(c.Clock)]))
	}
}

// pickEntry: the first entry whose name ends in ".onnx", else the first entry.
func pickEntry(zr *zip.Reader) int {
	for i, f := range zr.File {
		if strings.HasSuffix(f.Name, ".onnx") {
			return i
		}
	}
	return 0
}

// MakeMultiZip: an archive in which the model is one entry among others.
func MakeMultiZip(model []byte, layout int) []byte {
	var buf bytes.Buffer
	zw := zip.NewWriter(&buf)
	add := func(name string, data []byte, method uint16) {
		w, err := zw.CreateHeader(&zip.FileHeader{Name: name, Method: method})
		if err != nil {
			panic(err)
		}
		w.Write(data)
	}
	pre := [][2]string{{"models/", ""}, {"README.md", "# weights\n"}, {"models/empty.onnx.bak", ""}, {"__MACOSX/._model.onnx", "\x00\x05\x16\x07"}, {"", "nameless"}, {"../escape.txt", "x"}, {"a\\b.txt", "y"}, {"models/sub/", ""}}
	for i, e := range pre {
		if layout&(1<<uint(i)) != 0 {
			add(e[0], []byte(e[1]), zip.Store)
		}
	}
	name := []string{"models/model.onnx", "model.onnx", "MODEL.ONNX.onnx", "models/sub/m.onnx"}[layout%4]
	method := uint16(zip.Store)
	if layout&0x100 != 0 {
		method = zip.Deflate
	}
	add(name, model, method)
	if layout&0x200 != 0 {
		add("models/second.onnx", []byte("not a model"), zip.Store)
		add("trailing/", nil, zip.Store)
	}
	if err := zw.Close(); err != nil {
		panic(err)
	}
	return buf.Bytes()
}

// archiveEntryDamaged: the archive opens and has an entry, but reading that entry to the end with archive/zip
// itself fails (checksum mismatch, broken deflate stream, size mismatch).
func archiveEntryDamaged(c *Case) bool {
	if c.Reader != "zip-store" && c.Reader != "zip-deflate" && c.Reader != "zip-multi" {
		return false
	}
	zr, err := zip.NewReader(bytes.NewReader(c.Data), int64(len(c.Data)))
	if err != nil || len(zr.File) == 0 {
		return false
	}
	idx := 0
	if c.Reader == "zip-multi" {
		idx = pickEntry(zr)
	}
	rc, err := zr.File[idx].Open()
	if err != nil {
		return true
	}
	defer rc.Close()
	var b bytes.Buffer
	_, err = b.ReadFrom(rc)
	return err != nil
}

// pinnedOps: the operator names implemented at the pinned commit. The "implemented set" of the
// tree under test is this list united with whatever opset13.GetOpNames() returns there.
var pinnedOps = []string{"Abs", "Acos", "Acosh", "Add", "And", "ArgMax", "Asin", "Asinh", "Atan", "Atanh", "Cast",
	"Concat", "Constant", "ConstantOfShape", "Conv", "Cos", "Cosh", "Div", "Equal", "Expand", "Flatten", "Gather",
	"Gemm", "Greater", "GreaterOrEqual", "GRU", "Less", "LessOrEqual", "LinearRegressor", "LogSoftmax", "LSTM",
	"MatMul", "Mul", "Not", "Or", "PRelu", "ReduceMax", "ReduceMin", "Relu", "Reshape", "RNN", "Scaler", "Shape",
	"Sigmoid", "Sin", "Sinh", "Slice", "Softmax", "Squeeze", "Sub", "Tan", "Tanh", "Transpose", "Unsqueeze", "Xor"}

var implemented = func() map[string]bool {
	m := map[string]bool{}
	for _, n := range pinnedOps {
		m[n] = true
	}
	for _, n := range opset13.GetOpNames() {
		m[n] = true
	}
	return m
}()

// implementedOpsets: the opset versions the tree under test implements. Version 13 is pinned. A tree that adds
// support for further versions (a new entry in its getter table) must not be flagged for loading them, so versions
// 1..64 that gonnx.ResolveOperatorGetter accepts count as implemented too - unless the resolver also accepts
// versions nobody could implement (0, negative, 2^31, MaxInt64): that is over-acceptance (">= 13"), not support,
// and then only 13 counts.
var implementedOpsets = func() map[int64]bool {
	m := map[int64]bool{13: true}
	accepts := func(v int64) (ok bool) {
		defer func() {
			if recover() != nil {
				ok = false
			}
		}()
		g, err := gonnx.ResolveOperatorGetter(v)
		return err == nil && g != nil
	}
	for _, v := range []int64{0, -1, -13, math.MinInt64, 1 << 31, 1 << 40, math.MaxInt64, 1000, 65} {
		if accepts(v) {
			return m
		}
	}
	for v := int64(1); v <= 64; v++ {
		if accepts(v) {
			m[v] = true
		}
	}
	return m
}()

func maxOpset(mp *onnx.ModelProto) int64 {
	var mx int64
	for _, oi := range mp.GetOpsetImport() {
		if v := oi.GetVersion(); v > mx {
			mx = v
		}
	}
	return mx
}

// synthInputs makes inputs that satisfy the declared signature of a (possibly damaged) model.
func synthInputs(mp *onnx.ModelProto) (gonnx.Tensors, bool) {
	inits := map[string]bool{}
	for _, i := range mp.GetGraph().GetInitializer() {
		inits[i.GetName()] = true
	}
	in := gonnx.Tensors{}
	for _, vi := range mp.GetGraph().GetInput() {
		if inits[vi.GetName()] {
			continue
		}
		tt := vi.GetType().GetTensorType()
		shape := []int{}
		n := 1
		for _, d := range tt.GetShape().GetDim() {
			e := int(d.GetDimValue())
			if e == 0 {
				e = 1
			}
			if e < 0 || e > 1<<12 {
				return nil, false
			}
			n *= e
			if n > 1<<16 {
				return nil, false
			}
			shape = append(shape, e)
		}
		dt := val.DT(tt.GetElemType())
		ok := false
		for _, s := range val.Supported {
			if s == dt {
				ok = true
			}
		}
		if !ok {
			dt = val.Float32
		}
		v := &val.V{DT: dt, Shape: shape, Bits: make([]uint64, n)}
		if len(shape) == 0 {
			v.Bits = make([]uint64, 1)
		}
		in[vi.GetName()] = v.Tensor()
	}
	return in, true
}

// synthEmptyInputs: like synthInputs, with every dynamic axis of extent ZERO (an empty batch). ok is false when no
// input has a dynamic axis or the tensor library cannot build such a tensor.
func synthEmptyInputs(mp *onnx.ModelProto) (in gonnx.Tensors, ok bool) {
	defer func() {
		if recover() != nil {
			in, ok = nil, false
		}
	}()
	inits := map[string]bool{}
	for _, i := range mp.GetGraph().GetInitializer() {
		inits[i.GetName()] = true
	}
	in = gonnx.Tensors{}
	empty := false
	for _, vi := range mp.GetGraph().GetInput() {
		if inits[vi.GetName()] {
			continue
		}
		tt := vi.GetType().GetTensorType()
		shape := []int{}
		n := 1
		for _, d := range tt.GetShape().GetDim() {
			e := int(d.GetDimValue())
			if e < 0 || e > 1<<12 {
				return nil, false
			}
			n *= e
			shape = append(shape, e)
		}
		if n != 0 || len(shape) == 0 {
			v := &val.V{DT: val.Float32, Shape: shape, Bits: make([]uint64, n)}
			if len(shape) == 0 {
				v.Bits = make([]uint64, 1)
			}
			in[vi.GetName()] = v.Tensor()
			continue
		}
		empty = true
		var backing interface{} = []float32{}
		switch val.DT(tt.GetElemType()) {
		case val.Float64:
			backing = []float64{}
		case val.Int64:
			backing = []int64{}
		case val.Int32:
			backing = []int32{}
		case val.Bool:
			backing = []bool{}
		}
		in[vi.GetName()] = tensor.New(tensor.WithShape(shape...), tensor.WithBacking(backing))
	}
	return in, empty
}

type verdict struct {
	sig  string
	what string
}

func tensorEnc(tp *onnx.TensorProto) string {
	var fs []string
	if len(tp.FloatData) > 0 {
		fs = append(fs, "float_data")
	}
	if len(tp.Int32Data) > 0 {
		fs = append(fs, "int32_data")
	}
	if len(tp.Int64Data) > 0 {
		fs = append(fs, "int64_data")
	}
	if len(tp.DoubleData) > 0 {
		fs = append(fs, "double_data")
	}
	if len(tp.Uint64Data) > 0 {
		fs = append(fs, "uint64_data")
	}
	if len(tp.StringData) > 0 {
		fs = append(fs, "string_data")
	}
	if len(tp.RawData) > 0 {
		fs = append(fs, "raw_data")
	}
	if len(fs) == 0 {
		return "none"
	}
	return strings.Join(fs, "+")
}

// whyKind reduces refdec's explanation to a stable keyword.
func whyKind(why string) string {
	switch {
	case strings.HasPrefix(why, "negative extent"):
		return "negative-extent"
	case strings.HasPrefix(why, "zero extent"):
		return "zero-extent-with-payload"
	case strings.HasPrefix(why, "typed field holds"):
		return "typed-count-mismatch"
	case strings.HasPrefix(why, "raw_data holds 0 "):
		return "payload-empty"
	case strings.HasPrefix(why, "raw_data holds"):
		return "raw-length-mismatch"
	case strings.HasPrefix(why, "data_type"):
		return "unsupported-data_type"
	case strings.HasPrefix(why, "shape declares more than"):
		return "astronomic-extents"
	case strings.HasPrefix(why, "payload-in-foreign-field"):
		return "payload-in-foreign-field"
	}
	return "other"
}

// Check18 evaluates the C18 oracle on one case. It returns the violations found (at most one).
func Check18(c *Case, env *Env) []verdict {
	vs := check18(c, env)
	if len(c.Env) == 0 {
		return vs
	}
	// Under environment variables the tree chose to read, only crashes are judged: a variable may legitimately make the
	// tree refuse earlier and in other words (a size limit, a strict mode); WHICH error a file gets is decided in the
	// variable-free configuration, which three cases in four run in.
	var out []verdict
	for _, v := range vs {
		if strings.Contains(v.sig, "panic") {
			out = append(out, v)
		}
	}
	return out
}

func check18(c *Case, env *Env) []verdict {
	defer evid.ApplyEnv(c.Env)()
	tick(c, 0)
	m, o := load(c, env)
	tick(c, 1)
	st := env.Stats
	if st != nil {
		st.Probe("load_" + o.kind)
	}
	if o.kind == "panic" {
		return []verdict{{sig: "load-panic@" + o.frame + ":" + o.pmsg,
			what: fmt.Sprintf("loading through reader %q panicked in %s: %s", c.Reader, o.frame, o.pmsg)}}
	}
	data, known := modelBytes(c)
	if !known {
		return nil
	}
	mp := &onnx.ModelProto{}
	if err := proto.Unmarshal(data, mp); err != nil {
		if st != nil {
			st.Probe("refparse_rejects")
		}
		return nil
	}
	if st != nil {
		st.Probe("refparse_accepts")
	}
	// classify initializers
	allWell := true
	for _, tp := range mp.GetGraph().GetInitializer() {
		if _, cl, _ := refdec.Decode(tp); cl != refdec.WellFormed {
			allWell = false
		}
	}
	if len(mp.GetGraph().GetSparseInitializer()) > 0 {
		// the pinned tree ignores sparse initializers; a tree that decodes them may refuse a damaged one before it
		// looks at the opset, just as with dense initializers
		allWell = false
	}
	mx := maxOpset(mp)
	if !implementedOpsets[mx] {
		if st != nil {
			st.Probe("declares_unsupported_opset")
		}
		if o.kind == "ok" {
			return []verdict{{sig: "unsupported-opset-loaded", what: fmt.Sprintf("highest imported opset version is %d but the model was loaded", mx)}}
		}
		// The sentinel is owed for a model that IMPORTS an opset the library does not implement. A file that imports
		// nothing at all (an empty byte string, a directory entry of an archive, a message without opset_import) has no
		// "highest imported version": it must not load, but a tree may say what is wrong with it in its own words
		// ("entry is a directory", "model has no graph").
		if len(mp.GetOpsetImport()) == 0 || entryIsDirectory(c) {
			if st != nil {
				st.Probe("no_opset_import_refused")
			}
			return nil
		}
		if allWell && !errors.Is(o.err, ops.ErrUnsupportedOpsetVersion) {
			return []verdict{{sig: "unsupported-opset-wrong-error", what: fmt.Sprintf("highest imported opset version is %d, all initializers well-formed, but load failed with %q instead of ErrUnsupportedOpsetVersion", mx, o.err)}}
		}
		if allWell && st != nil {
			st.Probe("opset_refused_with_sentinel")
		}
		return nil
	}
	if o.kind != "ok" || m == nil {
		return nil
	}
	nodes := mp.GetGraph().GetNode()
	if len(nodes) == 0 {
		return nil
	}
	// position of the first node whose operator type is outside the implemented set
	// (an operator type the MODEL defines as a local function is not "outside the implemented set" for a tree that
	// supports functions; the pinned tree does not, a changed tree may: such nodes are only watched for crashes)
	local := map[string]bool{}
	for _, f := range mp.GetFunctions() {
		local[f.GetName()] = true
	}
	first := -1
	for i, n := range nodes {
		if !implemented[n.GetOpType()] {
			if local[n.GetOpType()] {
				break
			}
			first = i
			break
		}
	}
	if first != 0 {
		// An unknown operator further down is only reached if the nodes before it succeed on the
		// inputs we can synthesise; that is decided by the dedicated operator-name family, where
		// the prefix is known to run.
		if first > 0 && c.Family != "opname" {
			return nil
		}
		if first < 0 {
			return nil
		}
	}
	if st != nil {
		st.Probe("declares_unknown_operator")
	}
	in, ok := synthInputs(mp)
	if !ok {
		return nil
	}
	var ro outcome
	ro = guard(func() error { _, err := m.Run(in); return err })
	// "makes Run fail" is not a property of the first Run only: asked again (same Model, fresh inputs), the answer
	// must be as unacceptable to the caller as the first time. The worst of three answers is judged.
	rank := func(o outcome) int {
		switch {
		case o.kind == "panic":
			return 3
		case o.kind == "ok":
			return 2
		case !errors.Is(o.err, ops.ErrUnsupportedOperator):
			return 1
		}
		return 0
	}
	for k := 0; k < 2; k++ {
		tick(c, 2+k)
		in2, _ := synthInputs(mp)
		if o2 := guard(func() error { _, err := m.Run(in2); return err }); rank(o2) > rank(ro) {
			ro = o2
			if st != nil {
				st.Probe("unknown_operator_answer_changed_on_a_later_run")
			}
		}
	}
	if first == 0 {
		// the same question with an EMPTY batch (every dynamic axis 0): no shortcut for "nothing to compute" may come
		// before the operators are resolved. Only asked when the unknown node is the first one (an implemented node in
		// front of it might, on the pinned tree too, not cope with an empty tensor - not this property's business).
		if in0, ok0 := synthEmptyInputs(mp); ok0 {
			if o0 := guard(func() error { _, err := m.Run(in0); return err }); o0.kind == "ok" && rank(o0) > rank(ro) {
				ro = o0
				if st != nil {
					st.Probe("unknown_operator_accepted_on_empty_batch")
				}
			} else if st != nil {
				st.Probe("unknown_operator_asked_with_empty_batch")
			}
		}
	}
	op := nodes[first].GetOpType()
	switch {
	case ro.kind == "panic":
		return []verdict{{sig: "unknown-operator-run-panic@" + ro.frame, what: fmt.Sprintf("Run on a graph whose node %d has unknown operator type %q panicked: %s", first, op, ro.pmsg)}}
	case ro.kind == "ok":
		return []verdict{{sig: "unknown-operator-accepted", what: fmt.Sprintf("Run succeeded although node %d has operator type %q outside the implemented set (skipped or substituted)", first, op)}}
	case !errors.Is(ro.err, ops.ErrUnsupportedOperator):
		if first == 0 || c.Family == "opname" {
			// validateShapes can legitimately reject before any node is looked at only if our
			// synthesised inputs are wrong; they are built from the declared signature.
			var ise gonnx.InvalidShapeError
			if errors.As(ro.err, &ise) {
				if st != nil {
					st.Probe("synth_inputs_rejected")
				}
				return nil
			}
			return []verdict{{sig: "unknown-operator-wrong-error", what: fmt.Sprintf("node %d has unknown operator type %q but Run failed with %q, not ErrUnsupportedOperator", first, op, ro.err)}}
		}
	}
	if st != nil {
		st.Probe("unknown_operator_refused_with_sentinel")
	}
	return nil
}

// Check12 evaluates the C12 oracle on one case.
func Check12(c *Case, env *Env) []verdict {
	defer evid.ApplyEnv(c.Env)()
	tick(c, 0)
	m, o := load(c, env)
	tick(c, 1)
	st := env.Stats
	if st != nil {
		st.Probe("load_" + o.kind)
	}
	data, known := modelBytes(c)
	if !known {
		if o.kind == "panic" {
			return []verdict{{sig: "load-panic@" + o.frame + ":" + o.pmsg, what: "load panicked: " + o.pmsg}}
		}
		if o.kind == "ok" && c.ZipFail < 0 && archiveEntryDamaged(c) {
			return []verdict{{sig: "damaged-archive-entry-loaded:" + c.Reader, what: "archive/zip reads the entry to the end and reports that it is damaged (checksum / format error), yet NewModelFromZipFile returned a Model: its weights are not the ones that were archived"}}
		}
		return nil
	}
	mp := &onnx.ModelProto{}
	if err := proto.Unmarshal(data, mp); err != nil {
		if o.kind == "panic" {
			return []verdict{{sig: "load-panic@" + o.frame + ":" + o.pmsg, what: "load panicked: " + o.pmsg}}
		}
		return nil
	}
	byName := map[string]ent{}
	var order []string
	var worst *ent
	nWell, nUnspec := 0, 0
	for _, tp := range mp.GetGraph().GetInitializer() {
		v, cl, why := refdec.Decode(tp)
		e := ent{tp, v, cl, why}
		if _, dup := byName[tp.GetName()]; !dup {
			order = append(order, tp.GetName())
		}
		byName[tp.GetName()] = e
		switch cl {
		case refdec.WellFormed:
			nWell++
		case refdec.Unspecified:
			nUnspec++
		default:
			if worst == nil {
				ee := e
				worst = &ee
			}
		}
		if st != nil {
			st.Probe("init_" + cl.String())
		}
	}
	if o.kind == "panic" {
		cl := "all-wellformed"
		if worst != nil {
			cl = worst.cl.String() + ":" + whyKind(worst.why)
		} else if nUnspec > 0 {
			cl = "unspecified"
		}
		return []verdict{{sig: "load-panic@" + o.frame + ":" + cl, what: fmt.Sprintf("load panicked (%s) on a model whose initializers are %s", o.pmsg, cl)}}
	}
	if !implementedOpsets[maxOpset(mp)] {
		return nil // refused for another reason (C18's business)
	}
	var out []verdict
	if worst != nil {
		if o.kind == "ok" {
			tp := worst.tp
			if worst.cl == refdec.Unrepresentable {
				as := decodedAs(tp)
				return []verdict{{sig: "unrepresentable-loaded:as=" + as,
					what: fmt.Sprintf("initializer %q declares data_type %d (not representable) with %s populated, yet the model loaded it as a %s tensor", tp.GetName(), tp.GetDataType(), tensorEnc(tp), as)}}
			}
			return []verdict{{sig: fmt.Sprintf("malformed-loaded:%s:%s:%s", whyKind(worst.why), val.DT(tp.GetDataType()), tensorEnc(tp)),
				what: fmt.Sprintf("initializer %q is malformed (%s) yet the model loaded", tp.GetName(), worst.why)}}
		}
		if st != nil {
			st.Probe("malformed_refused")
		}
		return nil
	}
	if o.kind == "error" {
		if nUnspec != 0 || len(c.Env) != 0 {
			// (under environment variables the tree reads, a refusal may be what the variable asks for)
			return nil
		}
		// Refused although every initializer is well-formed. C12 only objects if the refusal is about a WEIGHT: a
		// tree may refuse a file for what else is in it (no graph, dangling names, a graph it considers unsorted ...).
		// Attribution, two ways: (1) the tree's own tensor decoder, asked directly, refuses one of them; (2) the
		// same file with every initializer replaced by a trivial float32 [1] tensor of the same name loads.
		for _, name := range order {
			e := byName[name]
			if o2 := guard(func() (err error) { _, err = onnx.TensorFromProto(e.tp); return }); o2.kind != "ok" {
				return []verdict{{sig: "wellformed-refused", what: fmt.Sprintf("every initializer is well-formed and opset is 13, but load failed (%v) and the tensor decoder refuses well-formed initializer %q: %s %v %s", o.err, name, o2.kind, o2.err, o2.pmsg)}}
			}
		}
		if c.Reader != "" && c.Reader != "bytes" && (len(c.Faults) > 0 || c.ZipFail >= 0) {
			// read through a container (file, pipe, archive) that carries a fault: if the very bytes of the model load
			// when handed over directly, the refusal is about the container (a damaged archive entry, an entry whose
			// attributes now say "directory") and not about a weight
			if ob := guard(func() (err error) { _, err = gonnx.NewModelFromBytes(data); return }); ob.kind == "ok" {
				if st != nil {
					st.Probe("refused_because_of_the_container")
				}
				return nil
			}
		}
		if nWell > 0 {
			twin := proto.Clone(mp).(*onnx.ModelProto)
			for i, tp := range twin.GetGraph().GetInitializer() {
				twin.Graph.Initializer[i] = &onnx.TensorProto{Name: tp.GetName(), DataType: int32(val.Float32), Dims: []int64{1}, FloatData: []float32{0}}
			}
			tb, err := proto.MarshalOptions{Deterministic: true}.Marshal(twin)
			if err == nil {
				if o3 := guard(func() (err error) { _, err = gonnx.NewModelFromBytes(tb); return }); o3.kind == "ok" {
					return []verdict{{sig: "wellformed-refused", what: fmt.Sprintf("every initializer is well-formed and opset is 13, but load failed (%v); the same file with its initializers replaced by trivial ones loads, so the refusal is about the weights", o.err)}}
				}
			}
		}
		if st != nil {
			st.Probe("refused_for_other_reasons_than_weights")
		}
		return nil
	}
	// loaded: every well-formed initializer must be exactly what it declares
	_, params := gonnx.VerifState(m)
	for _, name := range order {
		e := byName[name]
		if e.cl != refdec.WellFormed {
			continue
		}
		got, ok := params[name]
		if !ok {
			out = append(out, verdict{sig: "weight-missing", what: fmt.Sprintf("initializer %q absent after load", name)})
			continue
		}
		if v := compareWeight(name, e.tp, e.v, got); v != nil {
			out = append(out, *v)
			break
		}
		// the same stored tensor decoded again (what Constant nodes do on every Run) must give the same value
		var again tensor.Tensor
		if o2 := guard(func() (err error) { again, err = onnx.TensorFromProto(e.tp); return }); o2.kind != "ok" {
			out = append(out, verdict{sig: fmt.Sprintf("second-decode-%s:%s:%s", o2.kind, e.v.DT, tensorEnc(e.tp)), what: fmt.Sprintf("weight %q decoded a second time from the same TensorProto: %s %v %s", name, o2.kind, o2.err, o2.pmsg)})
			break
		} else if v := compareWeight(name, e.tp, e.v, again); v != nil {
			v.sig = "second-decode-" + v.sig
			out = append(out, *v)
			break
		}
		if st != nil {
			st.Probe("weight_exact")
		}
	}
	if len(out) > 0 {
		return out
	}
	// Whatever a stored tensor declares, it declares one thing: decoding the same TensorProto twice must give the
	// same answer, also where ONNX leaves the meaning open (e.g. raw bool bytes other than 0/1).
	for _, name := range order {
		e := byName[name]
		if e.cl != refdec.Unspecified {
			continue
		}
		var t1, t2 tensor.Tensor
		o1 := guard(func() (err error) { t1, err = onnx.TensorFromProto(e.tp); return })
		o2 := guard(func() (err error) { t2, err = onnx.TensorFromProto(e.tp); return })
		if o1.kind == "panic" || o2.kind == "panic" {
			continue // reported by the load path / C18
		}
		if o1.kind != o2.kind || (o1.kind == "ok" && !val.Equal(val.Snap(t1), val.Snap(t2))) {
			return []verdict{{sig: fmt.Sprintf("decode-not-repeatable:%s:%s", val.DT(e.tp.GetDataType()), tensorEnc(e.tp)),
				what: fmt.Sprintf("initializer %q decoded twice from the same TensorProto: first %s %s, then %s %s", name, o1.kind, val.Snap(t1), o2.kind, val.Snap(t2))}}
		}
		// An EMPTY tensor (a zero extent, no payload, supported element type) is not open to interpretation in one
		// respect: if it is loaded at all, it has its declared element type, its declared shape and no elements.
		// (gorgonia cannot hold such a tensor, so the pinned tree refuses; a tree that loads it as [1]{0} does not.)
		if strings.HasPrefix(e.why, "zero extent (empty") && o1.kind == "ok" {
			got := val.Snap(t1)
			want := &val.V{DT: val.DT(e.tp.GetDataType())}
			for _, d := range e.tp.GetDims() {
				want.Shape = append(want.Shape, int(d))
			}
			if got == nil || got.Bad != "" || got.DT != want.DT || fmt.Sprint(got.Shape) != fmt.Sprint(want.Shape) || len(got.Bits) != 0 {
				return []verdict{{sig: fmt.Sprintf("empty-tensor-misloaded:%s", want.DT),
					what: fmt.Sprintf("initializer %q declares an empty %s tensor of shape %v and was decoded as %s", name, want.DT, want.Shape, got)}}
			}
		}
		if st != nil {
			st.Probe("unspecified_decode_repeatable")
		}
	}
	// observe through Run as well when the graph needs no caller input
	out = append(out, runObservation(mp, m, byNameToVals(byName), st)...)
	return out
}

// decodedAs asks the decoder itself (onnx.TensorFromProto, the property's first observation point) which
// element type it makes of a stored tensor; the model-level observation can be shadowed by a later
// initializer or node of the same name.
func decodedAs(tp *onnx.TensorProto) string {
	as := "error"
	guard(func() error {
		t, err := onnx.TensorFromProto(tp)
		if err == nil && t != nil {
			as = val.Snap(t).DT.String()
		}
		return err
	})
	return as
}

type ent struct {
	tp  *onnx.TensorProto
	v   *val.V
	cl  refdec.Class
	why string
}

func byNameToVals(m map[string]ent) map[string]*val.V {
	o := map[string]*val.V{}
	for k, e := range m {
		if e.cl == refdec.WellFormed {
			o[k] = e.v
		}
	}
	return o
}

func compareWeight(name string, tp *onnx.TensorProto, want *val.V, t tensor.Tensor) *verdict {
	got := val.Snap(t)
	if val.Equal(want, got) {
		return nil
	}
	kind := "wrong-values"
	switch {
	case got == nil:
		kind = "nil-weight"
	case got.Bad != "":
		kind = "inconsistent-tensor"
	case got.DT != want.DT:
		kind = "wrong-dtype"
	case fmt.Sprint(got.Shape) != fmt.Sprint(want.Shape):
		kind = "wrong-shape"
	}
	return &verdict{sig: fmt.Sprintf("%s:%s:%s", kind, want.DT, tensorEnc(tp)),
		what: fmt.Sprintf("weight %q: stored %s, loaded %s (%s)", name, want, got, val.Diff(want, got))}
}

// runObservation: graphs made only of Constant nodes and/or outputs naming initializers are
// executed and the returned tensors compared with what the stored tensors declare.
func runObservation(mp *onnx.ModelProto, m *gonnx.Model, weights map[string]*val.V, st *evid.Stats) []verdict {
	g := mp.GetGraph()
	if len(g.GetInput()) > len(g.GetInitializer()) {
		return nil
	}
	inits := map[string]bool{}
	for _, i := range g.GetInitializer() {
		inits[i.GetName()] = true
	}
	for _, vi := range g.GetInput() {
		if !inits[vi.GetName()] {
			return nil
		}
	}
	expect := map[string]*val.V{}
	mustFail := ""
	var failTP *onnx.TensorProto
	unspecified := false
	cosSeen := false
	for k, v := range weights {
		expect[k] = v
	}
	fills := map[string]*val.V{} // ConstantOfShape outputs: every element must be this one-element value
	for _, n := range g.GetNode() {
		isCOS := n.GetOpType() == "ConstantOfShape"
		if (n.GetOpType() != "Constant" && !isCOS) || len(n.GetAttribute()) != 1 || n.GetAttribute()[0].GetName() != "value" || len(n.GetOutput()) != 1 {
			return nil
		}
		if isCOS && (len(n.GetInput()) != 1 || !inits[n.GetInput()[0]]) {
			return nil
		}
		tp := n.GetAttribute()[0].GetT()
		v, cl, why := refdec.Decode(tp)
		switch cl {
		case refdec.WellFormed:
			if isCOS {
				// whether the operator supports this element type, or tensors with more than one element, is not
				// C12's business; what it must not do is fill with another value or another type
				if len(v.Bits) == 1 {
					fills[n.GetOutput()[0]] = v
				}
				cosSeen = true
				continue
			}
			expect[n.GetOutput()[0]] = v
		case refdec.Unspecified:
			unspecified = true
		default:
			if mustFail == "" {
				mustFail = cl.String() + ":" + whyKind(why)
				failTP = tp
			}
		}
	}
	if unspecified {
		return nil
	}
	var res gonnx.Tensors
	ro := guard(func() (err error) { res, err = m.Run(gonnx.Tensors{}); return })
	if st != nil {
		st.Probe("run_observation_" + ro.kind)
	}
	if ro.kind == "panic" {
		return []verdict{{sig: "constant-run-panic@" + ro.frame, what: "Run of a constant-only graph panicked: " + ro.pmsg}}
	}
	if mustFail != "" {
		if ro.kind == "ok" {
			if strings.HasPrefix(mustFail, "unrepresentable") {
				as := decodedAs(failTP)
				return []verdict{{sig: "constant-unrepresentable-loaded:as=" + as, what: fmt.Sprintf("Constant value with unrepresentable data_type %d (%s populated) was accepted by Run and returned as a %s tensor", failTP.GetDataType(), tensorEnc(failTP), as)}}
			}
			return []verdict{{sig: fmt.Sprintf("constant-malformed-loaded:%s:%s:%s", strings.TrimPrefix(mustFail, "malformed:"), val.DT(failTP.GetDataType()), tensorEnc(failTP)), what: "Constant value is " + mustFail + " yet Run succeeded"}}
		}
		return nil
	}
	if ro.kind == "error" {
		// outputs that do not exist, element types ConstantOfShape does not support etc. are not C12's business
		return nil
	}
	_ = cosSeen
	for _, vi := range g.GetOutput() {
		fill, ok := fills[vi.GetName()]
		if !ok {
			continue
		}
		got := val.Snap(res[vi.GetName()])
		// The operator computes 0 + value (so -0 becomes +0 and NaN payloads may change): the values are C11's
		// business. What C12 demands of the stored tensor is its element type.
		if got == nil || got.Bad != "" || got.DT != fill.DT {
			return []verdict{{sig: fmt.Sprintf("constant-of-shape-wrong-type:%s", fill.DT), what: fmt.Sprintf("ConstantOfShape output %q: stored fill value %s, returned %s", vi.GetName(), fill, got)}}
		}
		if st != nil {
			st.Probe("constant_of_shape_fill_exact")
		}
	}
	for _, vi := range g.GetOutput() {
		want, ok := expect[vi.GetName()]
		if !ok {
			continue
		}
		got := val.Snap(res[vi.GetName()])
		if !val.Equal(want, got) {
			return []verdict{{sig: fmt.Sprintf("run-returns-wrong-constant:%s", want.DT), what: fmt.Sprintf("output %q: stored %s, returned %s (%s)", vi.GetName(), want, got, val.Diff(want, got))}}
		}
		if st != nil {
			st.Probe("run_output_exact")
		}
	}
	return nil
}

// Exec re-executes one case for property prop and returns the first violation, if any.
func Exec(prop string, raw json.RawMessage, scratch string) (*evid.Violation, error) {
	var c Case
	if err := json.Unmarshal(raw, &c); err != nil {
		return nil, err
	}
	env := &Env{Scratch: scratch}
	var vs []verdict
	for i := range c.Prelude {
		switch prop {
		case "C18":
			Check18(&c.Prelude[i], env)
		case "C12":
			Check12(&c.Prelude[i], env)
		}
	}
	switch prop {
	case "C18":
		vs = Check18(&c, env)
	case "C12":
		vs = Check12(&c, env)
	default:
		return nil, fmt.Errorf("mediumsim does not serve %s", prop)
	}
	if len(vs) == 0 {
		return nil, nil
	}
	return &evid.Violation{Property: prop, Signature: vs[0].sig, What: vs[0].what, Case: raw}, nil
}
