package mediumsim

import (
	"fmt"
	"math"

	"github.com/advancedclimatesystems/gonnx/onnx"
	"google.golang.org/protobuf/proto"
	"google.golang.org/protobuf/reflect/protoreflect"

	"verifsim/mb"
	"verifsim/rng"
	"verifsim/val"
)

// sparseFamily: well-formed and damaged sparse initializers added to a valid model.
func (g *gen) sparseFamily() {
	f32raw := func(name string, dims []int64, xs ...float32) *onnx.TensorProto {
		v := &val.V{DT: val.Float32}
		for _, d := range dims {
			v.Shape = append(v.Shape, int(d))
		}
		for _, x := range xs {
			v.Bits = append(v.Bits, uint64(math.Float32bits(x)))
		}
		tp := mb.TensorProto(&mb.Init{Name: name, V: v, Raw: true})
		tp.Dims = dims
		return tp
	}
	idx := func(dims []int64, xs ...int64) *onnx.TensorProto {
		return &onnx.TensorProto{DataType: int32(val.Int64), Dims: dims, Int64Data: xs}
	}
	type sp struct {
		note string
		st   *onnx.SparseTensorProto
	}
	var cases []sp
	add := func(note string, dims []int64, values *onnx.TensorProto, indices *onnx.TensorProto) {
		cases = append(cases, sp{note, &onnx.SparseTensorProto{Dims: dims, Values: values, Indices: indices}})
	}
	v2 := func() *onnx.TensorProto { return f32raw("S", []int64{2}, 1.5, -2) }
	add("linear ok", []int64{3, 4}, v2(), idx([]int64{2}, 1, 7))
	add("coordinates ok", []int64{3, 4}, v2(), idx([]int64{2, 2}, 0, 1, 2, 3))
	for _, bad := range []int64{-1, -12, 12, 13, math.MaxInt64, math.MinInt64, 1 << 40} {
		add(fmt.Sprintf("linear index %d", bad), []int64{3, 4}, v2(), idx([]int64{2}, 1, bad))
		add(fmt.Sprintf("coordinate %d", bad), []int64{3, 4}, v2(), idx([]int64{2, 2}, 0, 1, bad, 3))
		add(fmt.Sprintf("coordinate %d in column 1", bad), []int64{3, 4}, v2(), idx([]int64{2, 2}, 0, bad, 2, 3))
	}
	add("duplicate indices", []int64{3, 4}, v2(), idx([]int64{2}, 5, 5))
	add("unsorted indices", []int64{3, 4}, v2(), idx([]int64{2}, 7, 1))
	add("indices short", []int64{3, 4}, v2(), idx([]int64{1}, 1))
	add("indices long", []int64{3, 4}, v2(), idx([]int64{3}, 1, 2, 3))
	add("indices rank 3", []int64{3, 4}, v2(), idx([]int64{2, 1, 1}, 1, 2))
	add("indices wrong column count", []int64{3, 4}, v2(), idx([]int64{2, 3}, 0, 1, 2, 0, 1, 2))
	add("indices int32", []int64{3, 4}, v2(), &onnx.TensorProto{DataType: int32(val.Int32), Dims: []int64{2}, Int32Data: []int32{1, 2}})
	add("indices float", []int64{3, 4}, v2(), f32raw("", []int64{2}, 1, 2))
	add("indices payload mismatch", []int64{3, 4}, v2(), &onnx.TensorProto{DataType: int32(val.Int64), Dims: []int64{2}, Int64Data: []int64{1}})
	add("no indices", []int64{3, 4}, v2(), nil)
	add("no values", []int64{3, 4}, nil, idx([]int64{2}, 1, 2))
	add("no dims", nil, v2(), idx([]int64{2}, 1, 2))
	add("empty", nil, nil, nil)
	add("values unnamed", []int64{3, 4}, f32raw("", []int64{2}, 1, 2), idx([]int64{2}, 1, 2))
	add("values rank 2", []int64{3, 4}, f32raw("S", []int64{1, 2}, 1, 2), idx([]int64{2}, 1, 2))
	add("values malformed", []int64{3, 4}, &onnx.TensorProto{Name: "S", DataType: int32(val.Float32), Dims: []int64{2}, RawData: []byte{1, 2, 3}}, idx([]int64{2}, 1, 2))
	for _, dims := range [][]int64{{0, 4}, {-3, 4}, {1 << 31, 1 << 31}, {1 << 62, 4}, {math.MaxInt64}, {3, 4, 0}} {
		add(fmt.Sprintf("dense dims %v", dims), dims, v2(), idx([]int64{2}, 1, 2))
	}
	add("same name as initializer W", []int64{3, 2}, f32raw("W", []int64{2}, 1, 2), idx([]int64{2}, 1, 2))
	base := ChainModel().Proto()
	for _, c := range cases {
		if !g.mine() || g.stop {
			continue
		}
		mp := proto.Clone(base).(*onnx.ModelProto)
		mp.Graph.SparseInitializer = []*onnx.SparseTensorProto{c.st}
		raw, _ := proto.MarshalOptions{Deterministic: true}.Marshal(mp)
		g.run(&Case{Family: "sparse-initializer", Base: "gen:chain + sparse_initializer: " + c.note, Reader: "bytes", ZipFail: -1, Data: raw}, true)
	}
}

// schemaFuzzFamily: messages generated from the ONNX schema itself by protobuf reflection: every field of every
// message type can be populated (also the ones the pinned tree never reads), scalars are drawn from boundary
// values, nesting is bounded. A valid opset import and small graph skeleton are kept in most of them so that the
// loader gets past its first checks.
func (g *gen) schemaFuzzFamily() {
	n := 1500
	if g.thorough() {
		n = 20000
	}
	for i := 0; i < n; i++ {
		if !g.mine() || g.stop {
			continue
		}
		r := rng.New(rng.Mix(g.cfg.Seed, 0x5c4e, uint64(i)))
		var mp *onnx.ModelProto
		if r.Chance(2, 3) {
			mp = ChainModel().Proto()
		} else {
			mp = &onnx.ModelProto{}
		}
		fuzzMessage(r, mp.ProtoReflect(), 0, r.Range(1, 6))
		if r.Chance(3, 4) {
			mp.OpsetImport = append(mp.OpsetImport, &onnx.OperatorSetIdProto{Version: 13})
		}
		raw, err := proto.MarshalOptions{Deterministic: true}.Marshal(mp)
		if err != nil {
			continue
		}
		g.run(&Case{Family: "schema-fuzz", Base: fmt.Sprintf("schema-fuzz#%d", i), Reader: "bytes", ZipFail: -1, Data: raw}, true)
	}
}

var fuzzInts = []int64{0, 1, -1, 2, 3, 7, 13, 255, 256, -128, 1 << 31, -(1 << 31), 1<<31 - 1, 1 << 32, 1 << 40, 1 << 62, math.MaxInt64, math.MinInt64}

// fuzzMessage sets `budget` randomly chosen fields of m (recursively for message-typed fields).
func fuzzMessage(r *rng.R, m protoreflect.Message, depth, budget int) {
	fds := m.Descriptor().Fields()
	if fds.Len() == 0 {
		return
	}
	for k := 0; k < budget; k++ {
		fd := fds.Get(r.Intn(fds.Len()))
		if fd.ContainingOneof() != nil && r.Chance(1, 2) {
			continue
		}
		scalar := func() protoreflect.Value {
			iv := fuzzInts[r.Intn(len(fuzzInts))]
			switch fd.Kind() {
			case protoreflect.BoolKind:
				return protoreflect.ValueOfBool(r.Bool())
			case protoreflect.Int32Kind, protoreflect.Sint32Kind, protoreflect.Sfixed32Kind:
				return protoreflect.ValueOfInt32(int32(iv))
			case protoreflect.Int64Kind, protoreflect.Sint64Kind, protoreflect.Sfixed64Kind:
				return protoreflect.ValueOfInt64(iv)
			case protoreflect.Uint32Kind, protoreflect.Fixed32Kind:
				return protoreflect.ValueOfUint32(uint32(iv))
			case protoreflect.Uint64Kind, protoreflect.Fixed64Kind:
				return protoreflect.ValueOfUint64(uint64(iv))
			case protoreflect.FloatKind:
				return protoreflect.ValueOfFloat32(math.Float32frombits(uint32(r.U64())))
			case protoreflect.DoubleKind:
				return protoreflect.ValueOfFloat64(math.Float64frombits(r.U64()))
			case protoreflect.StringKind:
				return protoreflect.ValueOfString([]string{"", "x", "W", "y", "h", "Relu", "Constant", "value", "axis", "\x00", "ai.onnx", "a b"}[r.Intn(12)])
			case protoreflect.BytesKind:
				b := make([]byte, r.Intn(9))
				for i := range b {
					b[i] = byte(r.U64())
				}
				return protoreflect.ValueOfBytes(b)
			case protoreflect.EnumKind:
				vals := fd.Enum().Values()
				if r.Chance(1, 6) {
					return protoreflect.ValueOfEnum(protoreflect.EnumNumber(int32(iv)))
				}
				return protoreflect.ValueOfEnum(vals.Get(r.Intn(vals.Len())).Number())
			}
			return protoreflect.Value{}
		}
		switch {
		case fd.IsMap():
			continue
		case fd.IsList():
			l := m.Mutable(fd).List()
			cnt := r.Range(0, 3)
			for j := 0; j < cnt; j++ {
				if fd.Kind() == protoreflect.MessageKind || fd.Kind() == protoreflect.GroupKind {
					if depth >= 4 {
						break
					}
					e := l.NewElement()
					fuzzMessage(r, e.Message(), depth+1, r.Range(0, 4))
					l.Append(e)
				} else if v := scalar(); v.IsValid() {
					l.Append(v)
				}
			}
		case fd.Kind() == protoreflect.MessageKind || fd.Kind() == protoreflect.GroupKind:
			if depth >= 4 {
				continue
			}
			fuzzMessage(r, m.Mutable(fd).Message(), depth+1, r.Range(0, 4))
		default:
			if v := scalar(); v.IsValid() {
				m.Set(fd, v)
			}
		}
	}
}
