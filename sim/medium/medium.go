// Package medium simulates the storage and transport a model file goes through
// before gonnx reads it: a byte store to which faults are applied (truncation,
// bit rot, lost and torn block writes, duplicated/swapped blocks) and a
// fault-injecting io.ReaderAt under archive/zip.
package medium

import (
	"errors"
	"fmt"
	"io"
)

// Fault is one storage fault. It is data, so it can be written to a replay file.
type Fault struct {
	Kind string `json:"kind"`
	Off  int    `json:"off,omitempty"`
	Len  int    `json:"len,omitempty"`
	Bit  int    `json:"bit,omitempty"`
	Val  int    `json:"val,omitempty"`
	Off2 int    `json:"off2,omitempty"`
}

func (f Fault) String() string {
	return fmt.Sprintf("%s(off=%d,len=%d,bit=%d,val=%d,off2=%d)", f.Kind, f.Off, f.Len, f.Bit, f.Val, f.Off2)
}

// Kinds of byte-level faults.
const (
	Trunc     = "truncate"     // keep the first Off bytes (short read / torn tail)
	BitFlip   = "bitflip"      // flip bit Bit of byte Off
	ByteSet   = "byteset"      // overwrite byte Off with Val
	ZeroBlock = "zeroblock"    // Len bytes at Off read back as zeros (lost block write)
	DupBlock  = "dupblock"     // block [Off,Off+Len) written twice (inserted again after itself)
	SwapBlock = "swapblocks"   // blocks at Off and Off2 of length Len exchanged (reordered writes)
	DropBlock = "dropblock"    // block [Off,Off+Len) missing, rest shifted down
	TornNew   = "torn-new-old" // first Off bytes of the new version, then the old version's tail
	TornOld   = "torn-old-new" // first Off bytes of the old version, then the new version's tail
	Stale     = "stale"        // the update was lost entirely: old version is read
	Garbage   = "garbage"      // Len bytes at Off replaced by PRNG bytes seeded by Val
)

// Apply returns the bytes a reader sees after fault f hits `cur`; `old` is the previous
// version of the file (only used by the torn/stale kinds). The inputs are never modified.
// changed reports whether the result differs from cur.
func Apply(f Fault, cur, old []byte) (out []byte, changed bool) {
	cp := func() []byte { return append([]byte{}, cur...) }
	clampLen := func(off, n int) int {
		if off+n > len(cur) {
			n = len(cur) - off
		}
		if n < 0 {
			n = 0
		}
		return n
	}
	switch f.Kind {
	case Trunc:
		if f.Off >= len(cur) {
			return cp(), false
		}
		return append([]byte{}, cur[:f.Off]...), true
	case BitFlip:
		if f.Off >= len(cur) {
			return cp(), false
		}
		o := cp()
		o[f.Off] ^= 1 << uint(f.Bit&7)
		return o, true
	case ByteSet:
		if f.Off >= len(cur) {
			return cp(), false
		}
		o := cp()
		o[f.Off] = byte(f.Val)
		return o, o[f.Off] != cur[f.Off]
	case ZeroBlock:
		o := cp()
		n := clampLen(f.Off, f.Len)
		ch := false
		for i := 0; i < n; i++ {
			if o[f.Off+i] != 0 {
				ch = true
			}
			o[f.Off+i] = 0
		}
		return o, ch
	case Garbage:
		o := cp()
		n := clampLen(f.Off, f.Len)
		x := uint64(f.Val)*0x9e3779b97f4a7c15 + 1
		ch := false
		for i := 0; i < n; i++ {
			x ^= x << 13
			x ^= x >> 7
			x ^= x << 17
			b := byte(x)
			if o[f.Off+i] != b {
				ch = true
			}
			o[f.Off+i] = b
		}
		return o, ch
	case DupBlock:
		n := clampLen(f.Off, f.Len)
		if n == 0 {
			return cp(), false
		}
		o := append([]byte{}, cur[:f.Off+n]...)
		o = append(o, cur[f.Off:f.Off+n]...)
		o = append(o, cur[f.Off+n:]...)
		return o, true
	case DropBlock:
		n := clampLen(f.Off, f.Len)
		if n == 0 {
			return cp(), false
		}
		o := append([]byte{}, cur[:f.Off]...)
		o = append(o, cur[f.Off+n:]...)
		return o, true
	case SwapBlock:
		a, b, n := f.Off, f.Off2, f.Len
		if a > b {
			a, b = b, a
		}
		if a+n > b || b+n > len(cur) || n <= 0 {
			return cp(), false
		}
		o := cp()
		copy(o[a:a+n], cur[b:b+n])
		copy(o[b:b+n], cur[a:a+n])
		return o, string(o) != string(cur)
	case TornNew:
		// prefix of cur (new) followed by the tail of old beyond Off
		o := append([]byte{}, cur[:min(f.Off, len(cur))]...)
		if f.Off < len(old) {
			o = append(o, old[f.Off:]...)
		}
		return o, string(o) != string(cur)
	case TornOld:
		o := append([]byte{}, old[:min(f.Off, len(old))]...)
		if f.Off < len(cur) {
			o = append(o, cur[f.Off:]...)
		}
		return o, string(o) != string(cur)
	case Stale:
		return append([]byte{}, old...), string(old) != string(cur)
	}
	panic("medium: unknown fault kind " + f.Kind)
}

func min(a, b int) int {
	if a < b {
		return a
	}
	return b
}

// ApplyAll applies a sequence of faults.
func ApplyAll(fs []Fault, cur, old []byte) (out []byte, changed bool) {
	out = cur
	for _, f := range fs {
		var ch bool
		out, ch = Apply(f, out, old)
		changed = changed || ch
	}
	if len(fs) == 0 {
		out = append([]byte{}, cur...)
	}
	return out, changed
}

// ErrInjected is the I/O error a FaultyReaderAt returns.
var ErrInjected = errors.New("medium: injected I/O error")

// FaultyReaderAt serves Data but fails (or reads short) for any read touching the bad region
// [FailFrom, FailFrom+FailLen) (FailLen <= 0: everything from FailFrom on).
// Mode: "eio" returns ErrInjected, "eof" returns io.ErrUnexpectedEOF, "short" returns the
// bytes before FailFrom with io.EOF.
type FaultyReaderAt struct {
	Data     []byte
	FailFrom int64
	FailLen  int64
	Mode     string
	Fired    int
	Reads    int
}

func (r *FaultyReaderAt) ReadAt(p []byte, off int64) (int, error) {
	r.Reads++
	if off < 0 {
		return 0, errors.New("medium: negative offset")
	}
	if off >= int64(len(r.Data)) {
		return 0, io.EOF
	}
	end := off + int64(len(p))
	if r.FailFrom >= 0 && end > r.FailFrom && (r.FailLen <= 0 || off < r.FailFrom+r.FailLen) {
		r.Fired++
		switch r.Mode {
		case "eio":
			return 0, ErrInjected
		case "eof":
			return 0, io.ErrUnexpectedEOF
		default: // short
			if off >= r.FailFrom {
				return 0, io.EOF
			}
			n := copy(p, r.Data[off:r.FailFrom])
			return n, io.EOF
		}
	}
	n := copy(p, r.Data[off:])
	if n < len(p) {
		return n, io.EOF
	}
	return n, nil
}
