package callsim

import (
	"encoding/binary"
	"fmt"
	"hash/fnv"

	"github.com/advancedclimatesystems/gonnx/verifsim"

	"verifsim/corpus"
	"verifsim/evid"
	"verifsim/rng"
)

// drawWorld17: 2..16 tasks, each a short script of Runs (own input tensors) on 1-2 shared Models, with
// call faults and concurrent loads mixed in.
func drawWorld17(r *rng.R, lib *library) *Case {
	c := &Case{Prop: "C17"}
	nm := 1
	if r.Chance(1, 4) {
		nm = 2
	}
	var models []drawnModel
	for i := 0; i < nm; i++ {
		dm := lib.drawModel(r)
		models = append(models, dm)
		c.World.Models = append(c.World.Models, dm.spec)
	}
	shareProto(r, &c.World, &models)
	nt := []int{2, 2, 2, 3, 3, 4, 6, 8, 16}[r.Intn(9)]
	// worlds on image-sized or otherwise large inputs stay small: two callers, two calls each are enough for two Runs
	// to overlap, and a statement-instrumented (or race-instrumented) convolution over 65 536 elements costs seconds
	heavy := false
	for _, dm := range models {
		for _, set := range dm.inputSets {
			for _, v := range set {
				if v != nil && len(v.Bits) > 8192 {
					heavy = true
				}
			}
		}
	}
	if heavy {
		nt = 2
	}
	for ti := 0; ti < nt; ti++ {
		n := r.Range(1, 4)
		if nt > 6 || heavy {
			n = r.Range(1, 2)
		}
		c.World.Tasks = append(c.World.Tasks, drawTask(r, models, n, true))
	}
	c.World.MapSeed = r.U64()
	c.World.CopyModels = r.Chance(1, 10)
	return c
}

// simulate runs the world under a policy and judges it. Returns the run and verdicts.
func simulate(c *Case, pol policy, rc *refCache, attrib bool) (*worldRun, []verdict) {
	wr := execute(c, pol, attrib, false)
	c.Sched = wr.sched
	vs := judge(c, wr, rc, false, attrib)
	return wr, vs
}

// Worker17 runs the C17 share of one worker.
func Worker17(cfg Config) *evid.Stats {
	st := evid.NewStats()
	if verifsim.NSites == 0 {
		st.Trouble = append(st.Trouble, "C17 needs the instrumented scratch copy (verifsim.NSites == 0)")
		return st
	}
	VisitedSites = make([]bool, verifsim.NSites)
	defer func() {
		for i, v := range VisitedSites {
			if v {
				st.Sites = append(st.Sites, int32(i))
			}
		}
	}()
	rn := &runner{cfg: cfg, st: st, rc: &refCache{m: map[uint64]*refResult{}}, vcap: 4, pristineEvery: 200}
	lib := newLibrary(cfg.RepoDir)
	st.Probes["yield_sites_in_build"] = int64(verifsim.NSites)
	sitesSeen := map[int]struct{}{}
	one := func(c *Case, pol policy, polName string) *worldRun {
		if !rn.gate(c) {
			return nil
		}
		c.Policy = polName
		rc := rn.rc
		if rn.pristineDue(c) {
			c.PristineRef = true
			rc = &refCache{m: map[uint64]*refResult{}, pristine: true}
			st.Probe("worlds_judged_against_pristine_process_references")
		}
		wr, vs := simulate(c, pol, rc, false)
		st.Evals++
		st.Steps += wr.steps
		rn.note(c, wr)
		st.Probe("policy_" + polName)
		st.ProbeN("context_switches", wr.switches)
		st.ProbeN("preemptions_inside_overlapping_runs", wr.preemptInsideRun)
		for k, v := range wr.overlapOps {
			st.ProbeN("overlap_in_apply:"+k, v)
		}
		if wr.aborted {
			st.Probe("step_cap_reached")
		}
		st.ProbeN("lock_or_once_sections_entered_without_preemption", wr.holds)
		if len(wr.finalWChanged) > 0 {
			st.Probe("weights_differ_after_simulation(not judged under C17)")
		}
		for _, p := range wr.sched.Preempt {
			if p.K >= 0 {
				sitesSeen[p.Site] = struct{}{}
			}
		}
		if wr.preemptInsideRun > 0 {
			st.NonTrivial++
			st.Hashes = append(st.Hashes, hashCase(c))
			st.Hashes2 = append(st.Hashes2, wr.sched.Hash())
		}
		if st.Evals%301 == 1 {
			st.Sample(5, sampleOf(c))
		}
		if len(vs) > 0 {
			// attribute under the recorded schedule
			c2 := cloneCase(c)
			wr2 := execute(c2, newReplay(c.Sched), true, false)
			vs2 := judge(c2, wr2, rc, false, !c.PristineRef)
			if len(vs2) > 0 {
				vs = vs2
			} else {
				st.Probe("violation_not_reproduced_under_recorded_schedule")
			}
			rn.report(c, vs)
		}
		if len(rn.rc.m) > 20000 {
			rn.rc.m = map[uint64]*refResult{}
		}
		rn.remember(c)
		rn.afterWorld(c)
		return wr
	}
	if cfg.EmitOut == "" {
		rn.buildBattery(lib)
	}
	// dry run: serial, counts each task's yields
	dry := func(c *Case) []int64 {
		if cfg.EmitOut != "" {
			return make([]int64, len(c.World.Tasks))
		}
		order := make([]int, len(c.World.Tasks))
		for i := range order {
			order[i] = i
		}
		wr := execute(cloneCase(c), &serialPolicy{order: order}, false, false)
		st.Steps += wr.steps
		return wr.yields
	}
	// 1. enumerated single-preemption schedules P(δ): two callers, one Run each, on every template
	//    (natural bindings) and on the sample models. thorough: every δ; quick: 48 strided δ.
	idx := 0
	var bases []drawnModel
	for ti := range lib.tpls {
		r := rng.New(rng.Mix(cfg.Seed, 0x17e, uint64(ti)))
		bases = append(bases, fromEntry(corpus.DrawSingle(r, lib.tpls, ti, -1)))
		if lib.tpls[ti].Sensitive {
			bases = append(bases, fromEntry(corpus.DrawSingle(r, lib.tpls, ti, r.Intn(64))))
		}
	}
	bases = append(bases, fromEntry(corpus.ConvImageEntry()))
	for _, s := range lib.samples {
		if len(s.Bytes) < 100000 {
			bases = append(bases, drawnModel{spec: ModelSpec{Name: s.Name, Bytes: s.Bytes}, inputSets: s.InputSets, nNodes: 3})
		}
	}
	for bi, dm := range bases {
		mk := func() *Case {
			return &Case{Prop: "C17", World: World{Models: []ModelSpec{dm.spec}, MapSeed: uint64(bi), Tasks: []Task{
				{Calls: []Call{{Kind: KRun, Inputs: cloneSet(dm.inputSets[0]), Ref: -1}}},
				{Calls: []Call{{Kind: KRun, Inputs: cloneSet(dm.inputSets[len(dm.inputSets)-1]), Ref: -1}}},
			}}}
		}
		ys := dry(mk())
		ny := ys[0]
		stride := int64(1)
		if cfg.Tier != "thorough" && ny > 48 {
			stride = ny / 48
			if ny > 1_000_000 {
				stride = ny / 16 // image-sized models: a Run costs seconds, sixteen parking points spread over it
			}
		}
		if cfg.Tier == "thorough" && ny > 4000 {
			stride = ny / 4000
			if ny > 1_000_000 {
				stride = ny / 96
			}
		}
		for d := int64(0); d < ny; d += stride {
			mine := idx%cfg.NW == cfg.W
			idx++
			if !mine || rn.stop {
				continue
			}
			one(mk(), &parkPolicy{a: 0, delta: d, order: []int{0, 1}}, "park")
			st.Probe("enumerated_single_preemption")
		}
	}
	// 2. seeded worlds under a policy drawn per run
	for i := int64(cfg.W); !rn.expired(); i += int64(cfg.NW) {
		c, pol, name := drawRun17(cfg.Seed, i, lib, dry)
		one(c, pol, name)
	}
	st.Probes["distinct_preemption_sites_summed_over_workers"] = int64(len(sitesSeen))
	return st
}

// drawRun17: run i of the seeded part — world, policy and all — as a pure function of (seed, i).
func drawRun17(seed uint64, i int64, lib *library, dry func(*Case) []int64) (*Case, policy, string) {
	r := rng.New(rng.Mix(seed, 0x17, uint64(i)))
	c := drawWorld17(r, lib)
	ys := dry(c)
	var est int64
	for _, y := range ys {
		est += y
	}
	nt := len(c.World.Tasks)
	switch r.Intn(8) {
	case 0, 1, 2:
		den := []int{2, 16, 128, 1024}[r.Intn(4)]
		return c, &walkPolicy{r: r.Fork(), den: den}, fmt.Sprintf("walk1/%d", den)
	case 3, 4:
		d := r.Range(1, 5)
		return c, newPCT(r.Fork(), nt, d, est), fmt.Sprintf("pct%d", d)
	case 5:
		a := r.Intn(nt)
		var delta int64
		if ys[a] > 0 {
			delta = int64(r.Intn(int(ys[a])))
		}
		return c, &parkPolicy{a: a, delta: delta, order: r.Perm(nt)}, "park"
	case 6:
		a := r.Intn(nt)
		var delta int64
		if ys[a] > 0 {
			delta = int64(r.Intn(int(ys[a])))
		}
		w := int64([]int{1, 2, 3, 5, 17, 64}[r.Intn(6)])
		return c, &lockstepPolicy{a: a, delta: delta, w: w}, fmt.Sprintf("lockstep%d", w)
	}
	return c, &serialPolicy{order: r.Perm(nt)}, "serial"
}

// Digest17 prints one line per run i in [start, start+n): the event-log digest of the simulation. Two
// executions of the same (seed, i) must print the same line whatever the process, GOMAXPROCS or batch position.
func Digest17(seed uint64, start, n int64, repo string, out func(string)) {
	lib := newLibrary(repo)
	dry := func(c *Case) []int64 {
		order := make([]int, len(c.World.Tasks))
		for i := range order {
			order[i] = i
		}
		return execute(cloneCase(c), &serialPolicy{order: order}, false, false).yields
	}
	for i := start; i < start+n; i++ {
		c, pol, name := drawRun17(seed, i, lib, dry)
		wr := execute(c, pol, false, false)
		h := fnv.New64a()
		var b [8]byte
		w := func(x uint64) { binary.LittleEndian.PutUint64(b[:], x); h.Write(b[:]) }
		w(wr.sched.Hash())
		w(uint64(wr.steps))
		for ti := range wr.results {
			for ci := range wr.results[ti] {
				res := &wr.results[ti][ci]
				h.Write([]byte(res.Kind))
				for _, k := range sortedKeys(res.Out) {
					w(res.Out[k].Hash())
				}
				for _, k := range sortedKeys(res.LoadW) {
					w(res.LoadW[k].Hash())
				}
				h.Write([]byte(res.Intro))
			}
		}
		out(fmt.Sprintf("%d %s tasks=%d steps=%d switches=%d digest=%016x", i, name, len(c.World.Tasks), wr.steps, wr.switches, h.Sum64()))
	}
}
