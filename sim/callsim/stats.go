package callsim

import (
	"fmt"
	"sort"

	"verifsim/corpus"
	"verifsim/rng"
)

// CorpusStats reports, per template and binding mode, how often a fresh Run succeeds (development aid).
func CorpusStats(repo string, n int) {
	lib := newLibrary(repo)
	rc := &refCache{m: map[uint64]*refResult{}}
	for ti, t := range lib.tpls {
		ok, tot := 0, 0
		errs := map[string]int{}
		for i := 0; i < n; i++ {
			r := rng.New(rng.Mix(99, uint64(ti), uint64(i)))
			bind := -1
			if i%2 == 1 {
				bind = i / 2
			}
			dm := fromEntry(corpus.DrawSingle(r, lib.tpls, ti, bind))
			for _, set := range dm.inputSets {
				ref := rc.fresh(&dm.spec, set, nil, false)
				tot++
				if ref.Kind == "ok" {
					ok++
				} else {
					errs[ref.Kind+": "+clip(ref.Err, 90)+" "+dm.spec.Name]++
				}
			}
		}
		fmt.Printf("%-24s ok %d/%d\n", t.Name, ok, tot)
		var ks []string
		for k := range errs {
			ks = append(ks, k)
		}
		sort.Strings(ks)
		for i, k := range ks {
			if i >= 3 {
				break
			}
			fmt.Printf("      %dx %s\n", errs[k], k)
		}
	}
	ok, tot := 0, 0
	errs := map[string]int{}
	for i := 0; i < n*5; i++ {
		dm := fromEntry(corpus.DrawDAG(rng.New(rng.Mix(98, uint64(i)))))
		for _, set := range dm.inputSets {
			ref := rc.fresh(&dm.spec, set, nil, false)
			tot++
			if ref.Kind == "ok" {
				ok++
			} else {
				errs[ref.Kind+": "+clip(ref.Err, 100)]++
			}
		}
	}
	fmt.Printf("%-24s ok %d/%d %v\n", "DAG", ok, tot, errs)
	for _, s := range lib.samples {
		for _, set := range s.InputSets {
			ref := rc.fresh(&ModelSpec{Bytes: s.Bytes}, set, nil, false)
			fmt.Printf("%-24s %s %s\n", s.Name, ref.Kind, clip(ref.Err, 100))
		}
	}
}
