package callsim

import (
	"encoding/binary"
	"encoding/json"
	"fmt"
	"os"
	"reflect"
	"strings"
	"sync"
	"time"

	"verifsim/evid"

	gonnx "github.com/advancedclimatesystems/gonnx"
	"github.com/advancedclimatesystems/gonnx/onnx"
	"github.com/advancedclimatesystems/gonnx/ops"

	"verifsim/rng"
)

// RaceRun executes seeded C17 worlds with free-running goroutines (no baton: passing a baton would order
// every access and hide every race). Meant for a binary built with -race; the Go race detector writes its
// reports to the GORACE log. Operator faults are not injected here (the GetOperator seam is left alone), an
// opfault call degenerates to a plain Run. Results are still compared with the run-alone reference.
func RaceRun(seed uint64, start, n int64, repo string, report func(string)) (worlds, calls int64) {
	return raceRun(seed, start, n, 1, repo, nil, func(i int64, l string) { report(l) }, nil)
}

// raceRun: worlds start, start+step, ... (n of them, or until stop() says so); after(i) is called after every world.
func raceRun(seed uint64, start, n, step int64, repo string, stop func() bool, report func(i int64, l string), after func(i int64)) (worlds, calls int64) {
	return raceRunJ(nil, seed, start, n, step, repo, stop, report, after)
}

// raceRunJ: as raceRun; when jf is set, the index of the world about to run is written to it first, so that the
// driver can tell which world killed the process (Go aborts on e.g. concurrent map writes; that cannot be recovered).
func raceRunJ(jf *os.File, seed uint64, start, n, step int64, repo string, stop func() bool, report func(i int64, l string), after func(i int64)) (worlds, calls int64) {
	lib := newLibrary(repo)
	rc := &refCache{m: map[uint64]*refResult{}}
	for k, i := int64(0), start; k < n; k, i = k+1, i+step {
		if stop != nil && stop() {
			break
		}
		if jf != nil {
			var b [8]byte
			binary.LittleEndian.PutUint64(b[:], uint64(i))
			jf.WriteAt(b[:], 0)
		}
		r := rng.New(rng.Mix(seed, 0x17, uint64(i)))
		c := drawWorld17(r, lib)
		// image-sized inputs are left to the simulation: one convolution over 65 536 elements under the race detector
		// takes seconds, and this tier has seconds
		heavy := false
		for _, t := range c.World.Tasks {
			for _, cl := range t.Calls {
				for _, v := range cl.Inputs {
					if v != nil && len(v.Bits) > 8192 {
						heavy = true
					}
				}
			}
		}
		if heavy {
			continue
		}
		var models []*gonnx.Model
		okLoad := true
		shared := map[uint64]*onnx.ModelProto{}
		for mi := range c.World.Models {
			lm := loadLive(&c.World.Models[mi], shared)
			if lm.m == nil {
				okLoad = false
				break
			}
			// (a getter of the harness's is installed on every Model the harness uses, here one that only forwards:
			// a tree may take another code path once Model.GetOperator has been reassigned, and the references do it too)
			orig := lm.m.GetOperator
			lm.m.GetOperator = func(opType string) (ops.Operator, error) { return orig(opType) }
			models = append(models, lm.m)
		}
		if !okLoad {
			continue
		}
		worlds++
		type out struct {
			kind string
			outs gonnx.Tensors
			in   gonnx.Tensors
		}
		res := make([][]out, len(c.World.Tasks))
		var wg sync.WaitGroup
		startGate := make(chan struct{})
		for ti := range c.World.Tasks {
			ti := ti
			res[ti] = make([]out, len(c.World.Tasks[ti].Calls))
			wg.Add(1)
			go func() {
				defer wg.Done()
				<-startGate
				for ci := range c.World.Tasks[ti].Calls {
					call := &c.World.Tasks[ti].Calls[ci]
					switch call.Kind {
					case KLoad:
						guardRun(func() error { _, err := gonnx.NewModelFromBytes(call.LoadBytes); return err })
					case KIntrospect:
						guardRun(func() error { introspect(models[call.Model]); return nil })
					case KRun, KBad, KOpFault, KFeedback, KRefill:
						in := gonnx.Tensors{}
						for k, v := range call.Inputs {
							in[k] = v.Tensor()
						}
						o := &res[ti][ci]
						o.in = in
						runOn := models[call.Model]
						if c.World.CopyModels {
							cp := reflect.New(reflect.TypeOf(*runOn))
							cp.Elem().Set(reflect.ValueOf(*runOn))
							runOn = cp.Interface().(*gonnx.Model)
						}
						o.kind, _ = guardRun(func() (err error) { o.outs, err = runOn.Run(in); return })
					}
				}
			}()
		}
		close(startGate)
		wg.Wait()
		for ti := range c.World.Tasks {
			for ci := range c.World.Tasks[ti].Calls {
				call := &c.World.Tasks[ti].Calls[ci]
				o := &res[ti][ci]
				if o.kind == "" {
					continue
				}
				calls++
				ref := rc.fresh(&c.World.Models[call.Model], call.Inputs, nil, false)
				if ref.Kind != o.kind {
					report(i, fmt.Sprintf("world %d task %d call %d: %s under real concurrency, %s alone", i, ti, ci, o.kind, ref.Kind))
				} else if o.kind == "ok" {
					if ok, d := equalOuts(ref.Out, snapAll(o.outs)); !ok {
						report(i, fmt.Sprintf("world %d task %d call %d: output differs under real concurrency: %s", i, ti, ci, d))
					}
				}
			}
		}
		if len(rc.m) > 5000 {
			rc.m = map[uint64]*refResult{}
		}
		if after != nil {
			after(i)
		}
	}
	return worlds, calls
}

// RaceCase is the replayable record of a race-tier finding: world `Index` of seed `Seed`, free-running.
type RaceCase struct {
	Race struct {
		Seed   uint64 `json:"seed"`
		Index  int64  `json:"index"`
		Repeat int    `json:"repeat"`
		Report string `json:"report,omitempty"`
	} `json:"race"`
}

// raceLog watches this process's GORACE log file.
type raceLog struct {
	path string
	off  int64
}

func newRaceLog() *raceLog {
	// GORACE=log_path=<p> makes the runtime write to <p>.<pid>
	for _, kv := range strings.Fields(os.Getenv("GORACE")) {
		if strings.HasPrefix(kv, "log_path=") {
			return &raceLog{path: fmt.Sprintf("%s.%d", strings.TrimPrefix(kv, "log_path="), os.Getpid())}
		}
	}
	return nil
}

// fresh returns the reports written since the last call that involve gonnx code.
func (l *raceLog) fresh() []string {
	if l == nil {
		return nil
	}
	b, err := os.ReadFile(l.path)
	if err != nil || int64(len(b)) <= l.off {
		return nil
	}
	txt := string(b[l.off:])
	l.off = int64(len(b))
	var out []string
	for _, blk := range strings.Split(txt, "==================") {
		if strings.Contains(blk, "DATA RACE") && strings.Contains(blk, "advancedclimatesystems/gonnx") {
			out = append(out, strings.TrimSpace(blk))
		}
	}
	return out
}

// raceSummary: the two access sites of a report (top frames), for the human-readable part.
func raceSummary(rep string) string {
	var tops []string
	lines := strings.Split(rep, "\n")
	for i, l := range lines {
		t := strings.TrimSpace(l)
		if (strings.HasPrefix(t, "Write at") || strings.HasPrefix(t, "Read at") || strings.HasPrefix(t, "Previous write at") || strings.HasPrefix(t, "Previous read at")) && i+1 < len(lines) {
			// first gonnx frame of this stack
			for j := i + 1; j < len(lines) && strings.TrimSpace(lines[j]) != ""; j++ {
				f := strings.TrimSpace(lines[j])
				if strings.Contains(f, "advancedclimatesystems/gonnx") && strings.HasSuffix(f, ")") {
					tops = append(tops, strings.TrimPrefix(f, "github.com/advancedclimatesystems/"))
					break
				}
			}
		}
	}
	return strings.Join(tops, "  <->  ")
}

// RaceWorker: the race tier's share of one worker process (binary built with -race).
func RaceWorker(cfg Config) *evid.Stats {
	st := evid.NewStats()
	rl := newRaceLog()
	if rl == nil {
		st.Trouble = append(st.Trouble, "race tier: GORACE log_path not set")
		return st
	}
	seen := 0
	record := func(i int64, sig, what, rep string) {
		if seen >= 3 {
			return
		}
		seen++
		var rcase RaceCase
		rcase.Race.Seed, rcase.Race.Index, rcase.Race.Repeat, rcase.Race.Report = cfg.Seed, i, 80, rep
		raw, _ := json.Marshal(&rcase)
		st.Violations = append(st.Violations, evid.Violation{Property: "C17", Signature: sig, What: what, Case: raw})
	}
	var jf *os.File
	if cfg.Journal != "" {
		jf, _ = os.Create(cfg.Journal)
	}
	_ = jf
	worlds, calls := raceRunJ(jf, cfg.Seed, int64(cfg.W), 1<<40, int64(cfg.NW), cfg.RepoDir,
		func() bool { return time.Now().After(cfg.Deadline) || seen >= 3 },
		func(i int64, l string) {
			record(i, "free-running-result-differs", "under real (unscheduled) concurrency: "+l, "")
		},
		func(i int64) {
			for _, rep := range rl.fresh() {
				st.Probe("race_detector_reports")
				record(i, "data-race-in-gonnx", fmt.Sprintf("the Go race detector reports a data race during concurrent Runs of world %d: %s", i, raceSummary(rep)), clip(rep, 3000))
			}
		})
	st.Probes["race_tier_worlds"] = worlds
	st.Probes["race_tier_calls"] = calls
	return st
}

// RaceExec re-runs one world of the race tier up to Repeat times in this (race-built) process.
func RaceExec(raw json.RawMessage, repo string) (*evid.Violation, error) {
	var rcase RaceCase
	if err := json.Unmarshal(raw, &rcase); err != nil {
		return nil, err
	}
	rl := newRaceLog()
	if rl == nil {
		return nil, fmt.Errorf("race exec: GORACE log_path not set (binary must be built with -race)")
	}
	var v *evid.Violation
	for k := 0; k < rcase.Race.Repeat && v == nil; k++ {
		raceRun(rcase.Race.Seed, rcase.Race.Index, 1, 1, repo, nil,
			func(i int64, l string) {
				if v == nil {
					v = &evid.Violation{Property: "C17", Signature: "free-running-result-differs", What: l, Case: raw}
				}
			},
			func(i int64) {
				if reps := rl.fresh(); len(reps) > 0 && v == nil {
					v = &evid.Violation{Property: "C17", Signature: "data-race-in-gonnx", What: raceSummary(reps[0]), Case: raw}
				}
			})
	}
	return v, nil
}
