package callsim

import (
	"bytes"
	"encoding/binary"
	"encoding/json"
	"errors"
	"fmt"
	"hash/fnv"
	"io"
	"os"
	"os/exec"
	"reflect"
	"runtime"
	"runtime/debug"
	"sort"
	"strings"
	"time"

	gonnx "github.com/advancedclimatesystems/gonnx"
	"github.com/advancedclimatesystems/gonnx/onnx"
	"github.com/advancedclimatesystems/gonnx/ops"
	"github.com/advancedclimatesystems/gonnx/verifsim"
	"google.golang.org/protobuf/proto"
	"gorgonia.org/tensor"

	"verifsim/evid"
	"verifsim/rng"
	"verifsim/val"
)

var errInjected = errors.New("verifsim: injected operator failure")

// callCtx is the per-Run state the operator proxies consult.
type callCtx struct {
	task    int
	node    int
	fault   *OpFault
	fired   bool
	attrib  bool
	trace   []nodeTrace
	nodeOps []string
	sch     *sched
}

type nodeTrace struct {
	Op  string
	Out uint64
}

// callResult is what a task observed for one call.
type callResult struct {
	Kind     string // ok | error | panic
	Err      string
	Out      map[string]*val.V
	OutLate  map[string]*val.V // the same output objects, read again after the whole world has run
	InBefore map[string]*val.V
	InAfter  map[string]*val.V
	WChanged string // first weight found changed after the call (serial mode)
	PChanged bool   // protobuf changed after the call (serial mode)
	Trace    []nodeTrace
	FaultHit bool
	Intro    string
	LoadW    map[string]*val.V
	flavour  map[string]string
	inObjs   map[string]tensor.Tensor
	outObjs  map[string]tensor.Tensor
	Skipped  bool
	// inputsEditedLater: the caller has overwritten the tensors it passed to this call (buffer re-use); whatever
	// this call returned may legitimately share their memory, so the late re-read of its outputs proves nothing
	inputsEditedLater bool
}

type liveModel struct {
	spec    *ModelSpec
	m       *gonnx.Model
	mp      *onnx.ModelProto
	params  gonnx.Tensors
	w0      map[string]*val.V
	mp0     *onnx.ModelProto
	names   []string
	loadErr string
}

// executor runs one world.
type executor struct {
	ncalls     int
	c          *Case
	models     []*liveModel
	attrib     bool
	sch        *sched
	serial     *callCtx
	taskCtx    []*callCtx
	results    [][]callResult
	checkState bool // per-call weight/proto/caller-tensor checks (serial engines)
	copies     map[[2]int]*gonnx.Model
}

// modelCopy returns task ti's own by-value copy of shared model mi (made on first use).
func (x *executor) modelCopy(ti, mi int) *gonnx.Model {
	if x.copies == nil {
		x.copies = map[[2]int]*gonnx.Model{}
	}
	k := [2]int{ti, mi}
	if c, ok := x.copies[k]; ok {
		return c
	}
	cp := reflect.New(reflect.TypeOf(*x.models[mi].m))
	cp.Elem().Set(reflect.ValueOf(*x.models[mi].m)) // same as `c := *m`, without tripping vet's copylocks on future trees
	c := cp.Interface().(*gonnx.Model)
	x.copies[k] = c
	return c
}

func (x *executor) cur() *callCtx {
	if x.sch != nil && x.sch.active {
		return x.taskCtx[x.sch.cur]
	}
	return x.serial
}

// guardRun executes f, converting a panic into an outcome the way a caller with recover() would see it.
func guardRun(f func() error) (kind, msg string) {
	defer func() {
		if r := recover(); r != nil {
			kind, msg = "panic", fmt.Sprint(r)
			_ = debug.Stack
		}
	}()
	if err := f(); err != nil {
		return "error", err.Error()
	}
	return "ok", ""
}

// proxyOp wraps every operator of every node of every Run on a simulated model. It delegates
// everything; it only observes, and fails on purpose where the call's fault plan says so.
type proxyOp struct {
	ops.Operator
	// ctxOf resolves the call context at the moment a method is invoked, never at creation: a tree that creates
	// its operators once per Model and re-uses them must still see each call's own fault plan and nobody else's.
	ctxOf func() *callCtx
	idx   int
	typ   string
}

func (p *proxyOp) fire(when string) error {
	ctx := p.ctxOf()
	if ctx == nil {
		return nil
	}
	f := ctx.fault
	if f == nil || f.Node != p.idx || f.When != when {
		return nil
	}
	ctx.fired = true
	if f.Mode == "panic" {
		panic("verifsim: injected operator panic at node " + fmt.Sprint(p.idx))
	}
	return errInjected
}

func (p *proxyOp) Init(n *onnx.NodeProto) error {
	if err := p.fire("init"); err != nil {
		return err
	}
	return p.Operator.Init(n)
}

func (p *proxyOp) ValidateInputs(in []tensor.Tensor) ([]tensor.Tensor, error) {
	if err := p.fire("validate"); err != nil {
		return in, err
	}
	return p.Operator.ValidateInputs(in)
}

func (p *proxyOp) Apply(in []tensor.Tensor) ([]tensor.Tensor, error) {
	if err := p.fire("apply"); err != nil {
		return nil, err
	}
	ctx := p.ctxOf()
	if ctx == nil {
		return p.Operator.Apply(in)
	}
	if s := ctx.sch; s != nil {
		s.curNodeOp[ctx.task] = p.typ
	}
	out, err := p.Operator.Apply(in)
	if s := ctx.sch; s != nil {
		s.curNodeOp[ctx.task] = ""
	}
	if ctx.attrib {
		h := fnv.New64a()
		var b [8]byte
		for _, t := range out {
			binary.LittleEndian.PutUint64(b[:], val.Snap(t).Hash())
			h.Write(b[:])
		}
		if err != nil {
			h.Write([]byte("err"))
		}
		ctx.trace = append(ctx.trace, nodeTrace{Op: p.typ, Out: h.Sum64()})
	}
	if err == nil {
		if e := p.fire("after"); e != nil {
			return nil, e
		}
	}
	return out, err
}

func (x *executor) wrapGetter(orig gonnx.OpGetter, ctxOf func() *callCtx) gonnx.OpGetter {
	return func(opType string) (ops.Operator, error) {
		ctx := ctxOf()
		if ctx == nil {
			return orig(opType)
		}
		idx := ctx.node
		ctx.node++
		if f := ctx.fault; f != nil && f.Node == idx && f.When == "get" {
			ctx.fired = true
			if f.Mode == "panic" {
				panic("verifsim: injected getter panic")
			}
			return nil, errInjected
		}
		op, err := orig(opType)
		if err != nil {
			return op, err
		}
		// The proxy is only put in front of an operator where the harness needs it: at the node an operator fault
		// is injected into, and on every node while a violation is being attributed. Everywhere else the tree gets
		// its own operator object back - a proxy hides optional interfaces an operator may implement (in-place
		// variants, shape hints ...) and with them whole code paths of the tree under test.
		if f := ctx.fault; (f != nil && f.Node == idx) || ctx.attrib {
			return &proxyOp{Operator: op, ctxOf: ctxOf, idx: idx, typ: opType}, nil
		}
		return op, nil
	}
}

// makeTensor builds the tensor object a caller passes for value v in the given flavour. Every flavour has the
// same logical value (element type, shape, elements); they differ in memory layout and header state.
func makeTensor(v *val.V, flavour string) (t tensor.Tensor) {
	defer func() {
		if r := recover(); r != nil {
			// Building a tensor from a well-formed value cannot fail - unless process-wide state of the tensor library
			// (its object and shape pools) has been corrupted by what ran before.
			poolCorrupted = fmt.Sprintf("constructing a %v%v tensor panicked: %v", v.DT, v.Shape, r)
			t = nil
		}
	}()
	switch flavour {
	case "lazyT":
		if len(v.Shape) >= 2 && v.Bad == "" {
			// store the transposed data under the reversed shape, then transpose lazily: logically v again
			n := len(v.Shape)
			rs := make([]int, n)
			for i := range rs {
				rs[i] = v.Shape[n-1-i]
			}
			tv := &val.V{DT: v.DT, Shape: rs, Bits: make([]uint64, len(v.Bits))}
			idx := make([]int, n)
			for lin := range v.Bits {
				// idx = multi-index of lin in v.Shape; element goes to reversed multi-index in rs
				rem := lin
				for a := n - 1; a >= 0; a-- {
					idx[a] = rem % v.Shape[a]
					rem /= v.Shape[a]
				}
				pos := 0
				for a := 0; a < n; a++ {
					pos = pos*rs[a] + idx[n-1-a]
				}
				tv.Bits[pos] = v.Bits[lin]
			}
			t := tv.Tensor().(*tensor.Dense)
			if err := t.T(); err == nil && val.Equal(val.Snap(t), v) {
				return t
			}
		}
	case "view":
		if len(v.Shape) >= 1 && v.Shape[0] >= 1 && v.Bad == "" {
			// the first rows of a tensor twice as long along axis 0
			bs := append([]int{}, v.Shape...)
			bs[0] *= 2
			big := &val.V{DT: v.DT, Shape: bs, Bits: append(append([]uint64{}, v.Bits...), v.Bits...)}
			bt := big.Tensor().(*tensor.Dense)
			// (gorgonia drops a sliced axis of extent 1, so the flavour is only used when the view still has v's shape)
			if sl, err := bt.Slice(rangeSlice{0, v.Shape[0]}); err == nil && val.Equal(val.Snap(sl), v) {
				return sl
			}
		}
	}
	return v.Tensor()
}

// poolCorrupted is set when the harness itself can no longer build tensors (see makeTensor).
var poolCorrupted string

type rangeSlice struct{ a, b int }

func (r rangeSlice) Start() int { return r.a }
func (r rangeSlice) End() int   { return r.b }
func (r rangeSlice) Step() int  { return 1 }

func snapAll(ts gonnx.Tensors) map[string]*val.V {
	o := make(map[string]*val.V, len(ts))
	for k, t := range ts {
		o[k] = val.Snap(t)
	}
	return o
}

func sortedKeys[V any](m map[string]V) []string {
	ks := make([]string, 0, len(m))
	for k := range m {
		ks = append(ks, k)
	}
	sort.Strings(ks)
	return ks
}

func loadLive(spec *ModelSpec, shared map[uint64]*onnx.ModelProto) *liveModel {
	lm := &liveModel{spec: spec}
	var m *gonnx.Model
	kind, msg := guardRun(func() (err error) {
		if !spec.ShareProto {
			m, err = gonnx.NewModelFromBytes(spec.Bytes)
			return err
		}
		h := fnv.New64a()
		h.Write(spec.Bytes)
		mp := shared[h.Sum64()]
		if mp == nil {
			if mp, err = gonnx.ModelProtoFromBytes(spec.Bytes); err != nil {
				return err
			}
			shared[h.Sum64()] = mp
		}
		m, err = gonnx.NewModel(mp)
		return err
	})
	if kind != "ok" {
		lm.loadErr = kind + ": " + msg
		return lm
	}
	lm.m = m
	lm.mp, lm.params = gonnx.VerifState(m)
	lm.w0 = snapAll(lm.params)
	lm.names = sortedKeys(lm.params)
	lm.mp0 = proto.Clone(lm.mp).(*onnx.ModelProto)
	return lm
}

// introspect calls every read-only accessor and renders the answers.
func introspect(m *gonnx.Model) string {
	var sb strings.Builder
	fmt.Fprint(&sb, m.InputNames(), m.OutputNames(), m.ParamNames())
	is := m.InputShapes()
	for _, k := range sortedKeys(is) {
		fmt.Fprint(&sb, k, is[k].String())
		for i := range is[k] {
			d, err := m.InputDimSize(k, i)
			fmt.Fprint(&sb, d, err)
		}
	}
	os_ := m.OutputShapes()
	for _, k := range sortedKeys(os_) {
		fmt.Fprint(&sb, k, os_[k].String(), m.OutputShape(k).String())
	}
	return sb.String()
}

// scribble overwrites everything the accessors hand out: names, shape maps, dimension slices.
func scribble(m *gonnx.Model) {
	for _, names := range [][]string{m.InputNames(), m.OutputNames(), m.ParamNames()} {
		for i := range names {
			names[i] = "scribbled"
		}
	}
	for _, shapes := range []onnx.Shapes{m.InputShapes(), m.OutputShapes()} {
		for k, sh := range shapes {
			for i := range sh {
				sh[i] = onnx.Dim{IsDynamic: !sh[i].IsDynamic, Name: "scribbled", Size: 7777}
			}
			delete(shapes, k)
		}
		shapes["scribbled"] = onnx.Shape{{Size: 1}}
	}
	for _, k := range m.OutputNames() {
		sh := m.OutputShape(k)
		for i := range sh {
			sh[i].Size = -5
		}
	}
}

// doCall executes call ci of task ti. It is the body of the simulated caller.
func (x *executor) doCall(ti, ci int, ctx *callCtx) {
	if cl := x.c.World.Clock; len(cl) > 0 {
		verifsim.AdvanceClock(time.Duration(cl[x.ncalls%len(cl)]))
		x.ncalls++
	}
	call := &x.c.World.Tasks[ti].Calls[ci]
	res := &x.results[ti][ci]
	if call.Kind == KLoad {
		var m *gonnx.Model
		res.Kind, res.Err = guardRun(func() (err error) { m, err = gonnx.NewModelFromBytes(call.LoadBytes); return })
		if res.Kind == "ok" {
			_, params := gonnx.VerifState(m)
			res.LoadW = snapAll(params)
			if call.Inputs != nil {
				in := gonnx.Tensors{}
				for k, v := range call.Inputs {
					in[k] = v.Tensor()
				}
				// (the Model is used the way every other Model of a world and every reference Model is: with the harness's
				// operator getter installed - a tree may legitimately take another code path when Model.GetOperator has
				// been reassigned, and like must be compared with like)
				lctx := &callCtx{}
				m.GetOperator = x.wrapGetter(m.GetOperator, func() *callCtx { return lctx })
				var out gonnx.Tensors
				k2, e2 := guardRun(func() (err error) { out, err = m.Run(in); return })
				res.Kind, res.Err = k2, e2
				if k2 == "ok" {
					res.Out = snapAll(out)
				}
			}
		}
		return
	}
	lm := x.models[call.Model]
	if lm.m == nil {
		res.Skipped = true
		return
	}
	if call.Kind == KIntrospect {
		res.Kind, res.Err = guardRun(func() error { res.Intro = introspect(lm.m); return nil })
		if call.Scribble {
			guardRun(func() error { scribble(lm.m); return nil })
		}
		return
	}
	// assemble the tensor objects handed to Run
	in := gonnx.Tensors{}
	var sameFlavour map[string]string
	switch call.Kind {
	case KSame:
		ref := &x.results[ti][call.Ref]
		if ref.inObjs == nil {
			res.Skipped = true
			return
		}
		for k, t := range ref.inObjs {
			in[k] = t
		}
		sameFlavour = ref.flavour
	case KRefill:
		ref := &x.results[ti][call.Ref]
		if ref.inObjs == nil || len(ref.flavour) != 0 {
			res.Skipped = true
			return
		}
		// only buffers the caller made itself: a tensor it was handed back by a Run (which may be, or share memory
		// with, a weight of the Model when a graph output names an initializer) is not overwritten - the property
		// speaks of re-used input tensors and fed-back outputs, not of callers editing what Run returned
		foreign := map[tensor.Tensor]bool{}
		for oi := range x.results {
			for oc := range x.results[oi] {
				for _, t := range x.results[oi][oc].outObjs {
					foreign[t] = true
				}
			}
		}
		for _, m := range x.models {
			for _, t := range m.params {
				foreign[t] = true
			}
		}
		edited := map[tensor.Tensor]bool{}
		if call.Rearrange != "" {
			names := sortedKeys(ref.inObjs)
			for i, k := range names {
				t := ref.inObjs[k]
				if t == nil || foreign[t] {
					res.Skipped = true
					return
				}
				switch call.Rearrange {
				case "swapped":
					in[names[(i+1)%len(names)]] = t
				default:
					if d, ok := t.(*tensor.Dense); ok && !d.IsScalar() && !d.RequiresIterator() && d.Dims() >= 2 {
						sh := d.Shape().Clone()
						for a, b := 0, len(sh)-1; a < b; a, b = a+1, b-1 {
							sh[a], sh[b] = sh[b], sh[a]
						}
						if err := d.Reshape(sh...); err == nil {
							edited[t] = true
						}
					}
					in[k] = t
				}
			}
		}
		for k, v := range call.Inputs {
			if call.Rearrange != "" {
				break
			}
			if t := ref.inObjs[k]; t != nil && !foreign[t] && overwrite(t, v) {
				in[k] = t
				edited[t] = true
			} else {
				in[k] = v.Tensor()
			}
		}
		// every earlier call that was handed one of these objects (or handed it back) is excused from the late re-read
		for oi := range x.results {
			for oc := range x.results[oi] {
				r := &x.results[oi][oc]
				for _, t := range r.inObjs {
					if edited[t] {
						r.inputsEditedLater = true
					}
				}
				for _, t := range r.outObjs {
					if edited[t] {
						r.inputsEditedLater = true
					}
				}
			}
		}
	case KFeedback:
		ref := &x.results[ti][call.Ref]
		for k, v := range call.Inputs {
			in[k] = v.Tensor()
		}
		// (outputs of a call that was given tensors in an unusual memory layout may inherit that layout; the
		// reference could not rebuild it from a snapshot, so such outputs are not fed back)
		if ref.outObjs != nil && len(ref.flavour) == 0 {
			// an output of the earlier call is passed wherever it has the element type and rank of the intended input
			for _, on := range sortedKeys(ref.outObjs) {
				ot := ref.outObjs[on]
				if ot == nil {
					continue
				}
				for _, k := range sortedKeys(call.Inputs) {
					v := call.Inputs[k]
					os_ := val.Snap(ot)
					if os_.Bad == "" && os_.DT == v.DT && fmt.Sprint(os_.Shape) == fmt.Sprint(v.Shape) {
						in[k] = ot
						break
					}
				}
			}
		}
		if call.CarryAll && ref.outObjs != nil && len(ref.flavour) == 0 {
			for _, on := range sortedKeys(ref.outObjs) {
				if ot := ref.outObjs[on]; ot != nil && in[on] == nil && val.Snap(ot).Bad == "" {
					in[on] = ot
				}
			}
		}
	case KPiece:
		if call.RetryOf > 0 {
			// the caller retries an aborted piece with the same tensors
			prev := &x.results[ti][call.RetryOf-1]
			if prev.inObjs == nil {
				res.Skipped = true
				return
			}
			for k, t := range prev.inObjs {
				in[k] = t
			}
			sameFlavour = prev.flavour
			break
		}
		for k, v := range call.Inputs {
			in[k] = v.Tensor()
		}
		if call.Ref >= 0 {
			ref := &x.results[ti][call.Ref]
			for inName, outName := range call.Carry {
				if t := ref.outObjs[outName]; t != nil {
					in[inName] = t
					if d, ok := t.(*tensor.Dense); ok && call.CarryBacking && !d.IsScalar() && !d.RequiresIterator() {
						// the same memory under a new tensor object; the old object is let go
						in[inName] = tensor.New(tensor.WithShape(d.Shape().Clone()...), tensor.WithBacking(d.Data()))
						ref.outObjs[outName] = nil
					}
				} else {
					res.Skipped = true
					return
				}
			}
		}
	default:
		for k, v := range call.Inputs {
			in[k] = makeTensor(v, call.Flavour[k])
		}
		for b, a := range call.Alias {
			if in[a] != nil && in[b] != nil && val.Equal(call.Inputs[a], call.Inputs[b]) {
				in[b] = in[a]
			}
		}
	}
	if poolCorrupted != "" {
		res.Kind, res.Err, res.Skipped = "corrupted", poolCorrupted, false
		return
	}
	res.inObjs = in
	res.flavour = call.Flavour
	if sameFlavour != nil {
		res.flavour = sameFlavour // the very objects of an earlier call: whatever state they were built in
	}
	res.InBefore = snapAll(in)
	ctx.node, ctx.fault, ctx.fired, ctx.trace = 0, call.Fault, false, nil
	ctx.attrib = x.attrib
	var out gonnx.Tensors
	if x.sch != nil {
		for o, om := range x.sch.inRun {
			if o != ti && om == call.Model+1 {
				x.sch.overlaps++
				break
			}
		}
		x.sch.inRun[ti] = call.Model + 1
	}
	runOn := lm.m
	if x.c.World.CopyModels {
		runOn = x.modelCopy(ti, call.Model)
	}
	res.Kind, res.Err = guardRun(func() (err error) { out, err = runOn.Run(in); return })
	if x.sch != nil {
		x.sch.inRun[ti] = 0
		x.sch.curNodeOp[ti] = ""
	}
	res.FaultHit = ctx.fired
	res.Trace = ctx.trace
	if hp := os.Getenv("VERIF_HEAPPROF"); hp != "" {
		for k, o := range out {
			if o != nil && o.Shape().TotalSize() > 1<<20 {
				if f, err := os.OpenFile(hp+".big", os.O_APPEND|os.O_CREATE|os.O_WRONLY, 0o644); err == nil {
					fmt.Fprintf(f, "model=%s ops=%v out=%s shape=%v\n", lm.spec.Name, lm.spec.Ops, k, o.Shape())
					for ik, it := range in {
						fmt.Fprintf(f, "   in %s %v\n", ik, it.Shape())
					}
					f.Close()
				}
			}
		}
	}
	if res.Kind == "ok" {
		res.Out = snapAll(out)
		res.outObjs = out
	}
	res.InAfter = snapAll(in)
	if x.checkState {
		for _, name := range lm.names {
			if !val.Equal(lm.w0[name], val.Snap(lm.params[name])) {
				res.WChanged = name
				break
			}
		}
		if len(lm.params) != len(lm.w0) {
			res.WChanged = "(set of weights)"
		}
		if !proto.Equal(lm.mp, lm.mp0) {
			res.PChanged = true
		}
	}
}

// letGo: task ti has executed its calls [0, done); it drops every tensor no later call of its script will pass again.
func (x *executor) letGo(ti, done int) {
	calls := x.c.World.Tasks[ti].Calls
	for cj := 0; cj < done && cj < len(x.results[ti]); cj++ {
		r := &x.results[ti][cj]
		all := false              // a later call re-uses this call's objects wholesale
		keep := map[string]bool{} // output names a later piece carries
		for ck := done; ck < len(calls); ck++ {
			lc := &calls[ck]
			if lc.RetryOf-1 == cj && lc.RetryOf > 0 {
				all = true
			}
			if lc.Ref != cj {
				continue
			}
			switch lc.Kind {
			case KPiece:
				for _, on := range lc.Carry {
					keep[on] = true
				}
			default:
				all = true
			}
		}
		if all {
			continue
		}
		r.inObjs = nil
		for on := range r.outObjs {
			if !keep[on] {
				delete(r.outObjs, on)
			}
		}
		if len(r.outObjs) == 0 {
			r.outObjs = nil
		}
	}
}

// collectGarbage runs a full collection and gives the finalizers it queues the chance to run before the caller goes
// on: a sentinel object that became unreachable just before the collection has its finalizer queued in the same batch.
func collectGarbage() {
	type sentinel struct{ _ [16]byte }
	done := make(chan struct{})
	s := &sentinel{}
	runtime.SetFinalizer(s, func(*sentinel) { close(done) })
	s = nil
	runtime.GC()
	select {
	case <-done:
	case <-time.After(20 * time.Millisecond):
	}
	runtime.Gosched()
}

// overwrite copies v into the memory of t (a caller re-using its buffer) when t is a plain dense tensor of v's
// element type and shape; it reports whether it did.
func overwrite(t tensor.Tensor, v *val.V) (done bool) {
	defer func() {
		if recover() != nil {
			done = false
		}
	}()
	d, ok := t.(*tensor.Dense)
	if !ok || d.IsScalar() || d.RequiresIterator() || fmt.Sprint([]int(d.Shape())) != fmt.Sprint(v.Shape) {
		return false
	}
	cur := val.Snap(d)
	if cur.Bad != "" || cur.DT != v.DT {
		return false
	}
	dst, src := reflect.ValueOf(d.Data()), reflect.ValueOf(v.Backing())
	if dst.Kind() != reflect.Slice || src.Kind() != reflect.Slice || dst.Type() != src.Type() || dst.Len() != src.Len() {
		return false
	}
	reflect.Copy(dst, src)
	return true
}

// worldRun is everything one execution of a world produced.
type worldRun struct {
	results          [][]callResult
	models           []*liveModel
	sched            *Schedule
	steps            int64
	yields           []int64
	preemptInsideRun int64
	switches         int64
	aborted          bool
	overlapOps       map[string]int64
	holds            int64
	finalWChanged    []string
}

// execute runs the case. pol == nil: serial execution following c.Order (or tasks in order).
func execute(c *Case, pol policy, attrib bool, checkState bool) *worldRun {
	defer evid.ApplyEnv(c.World.Env)()
	x := &executor{c: c, attrib: attrib, checkState: checkState}
	sharedMP := map[uint64]*onnx.ModelProto{}
	for i := range c.World.Models {
		lm := loadLive(&c.World.Models[i], sharedMP)
		if lm.m != nil {
			orig := lm.m.GetOperator
			lm.m.GetOperator = x.wrapGetter(orig, x.cur)
		}
		x.models = append(x.models, lm)
	}
	x.results = make([][]callResult, len(c.World.Tasks))
	for i, t := range c.World.Tasks {
		x.results[i] = make([]callResult, len(t.Calls))
	}
	wr := &worldRun{results: x.results, models: x.models}
	if pol == nil {
		// serial: Order lists task ids; each occurrence executes that task's next call
		next := make([]int, len(c.World.Tasks))
		order := c.Order
		if order == nil {
			for ti, t := range c.World.Tasks {
				for range t.Calls {
					order = append(order, ti)
				}
			}
		}
		ctxs := make([]*callCtx, len(c.World.Tasks))
		for i := range ctxs {
			ctxs[i] = &callCtx{task: i}
		}
		for _, ti := range order {
			if ti < 0 || ti >= len(next) || next[ti] >= len(c.World.Tasks[ti].Calls) {
				continue
			}
			x.serial = ctxs[ti]
			x.doCall(ti, next[ti], ctxs[ti])
			next[ti]++
			if c.World.Collect {
				x.letGo(ti, next[ti])
				collectGarbage()
			}
		}
		x.serial = nil
	} else {
		n := len(c.World.Tasks)
		s := newSched(n, pol, 4_000_000)
		x.sch = s
		x.taskCtx = make([]*callCtx, n)
		fns := make([]func(), n)
		for ti := 0; ti < n; ti++ {
			ti := ti
			x.taskCtx[ti] = &callCtx{task: ti, sch: s}
			fns[ti] = func() {
				for ci := range c.World.Tasks[ti].Calls {
					x.doCall(ti, ci, x.taskCtx[ti])
				}
			}
		}
		// map-iteration-order seam: the order of the j-th map walk of task t is a pure function of (MapSeed, t, j)
		verifsim.Order = func(k int) []int {
			if !s.active {
				return identity(k)
			}
			t := s.tasks[s.cur]
			t.mapCalls++
			return rng.New(rng.Mix(c.World.MapSeed, uint64(t.id), t.mapCalls)).Perm(k)
		}
		s.foreign = verifsim.ForeignGoroutines
		verifsim.Hook = s.hook
		verifsim.HoldHook = s.holdHook
		s.run(fns)
		verifsim.Hook = nil
		verifsim.HoldHook = nil
		verifsim.Order = nil
		rec := s.rec
		wr.sched = &rec
		wr.steps = s.steps
		wr.preemptInsideRun = s.preemptInsideRun + s.overlaps
		wr.switches = s.switches
		wr.aborted = s.aborted
		wr.overlapOps = s.overlapOps
		wr.holds = s.holds
		for _, t := range s.tasks {
			wr.yields = append(wr.yields, t.yields)
		}
		x.sch = nil
	}
	// the caller still holds every tensor it was given back: read them again now that everything has run
	for ti := range x.results {
		for ci := range x.results[ti] {
			if r := &x.results[ti][ci]; r.outObjs != nil && !r.inputsEditedLater {
				late := snapAll(r.outObjs)
				// (tensors the caller has let go of in the meantime keep the value they had when they were returned)
				for k, v := range r.Out {
					if _, ok := late[k]; !ok {
						late[k] = v
					}
				}
				r.OutLate = late
			}
		}
	}
	for _, lm := range x.models {
		if lm.m == nil {
			continue
		}
		for _, name := range lm.names {
			if !val.Equal(lm.w0[name], val.Snap(lm.params[name])) {
				wr.finalWChanged = append(wr.finalWChanged, lm.spec.Name+":"+name)
			}
		}
	}
	return wr
}

func identity(k int) []int {
	p := make([]int, k)
	for i := range p {
		p[i] = i
	}
	return p
}

// ---------- the reference: the same call, alone, on a freshly loaded Model ----------

type refResult struct {
	Kind    string
	Err     string
	Out     map[string]*val.V
	Trace   []nodeTrace
	Intro   string
	LoadW   map[string]*val.V
	LoadErr string
}

type refCache struct {
	m map[uint64]*refResult
	// pristine: compute every Run reference in its own brand-new OS process instead of on a fresh Model inside
	// this (long-lived, possibly "warm") process. Slower by orders of magnitude, so it is used on a sample of
	// worlds; it is what exposes state that outlives Models (package-level caches keyed by a name or a shape),
	// which a fresh Model in the same process would see just as well as the Model under test.
	pristine bool
}

// refRequest / refReply: the wire format of `simcheck refcall`.
type refRequest struct {
	Bytes   []byte            `json:"bytes"`
	Inputs  map[string]*val.V `json:"inputs"`
	Flavour map[string]string `json:"flavour,omitempty"`
	Fault   *OpFault          `json:"fault,omitempty"`
}

type refReply struct {
	Kind string            `json:"kind"`
	Err  string            `json:"err"`
	Out  map[string]*val.V `json:"out"`
}

// RefCall serves one reference computation (the body of `simcheck refcall`).
func RefCall(in io.Reader, out io.Writer) error {
	var rq refRequest
	if err := json.NewDecoder(in).Decode(&rq); err != nil {
		return err
	}
	rc := &refCache{m: map[uint64]*refResult{}}
	r := rc.freshF(&ModelSpec{Bytes: rq.Bytes}, rq.Inputs, rq.Flavour, rq.Fault, false)
	return json.NewEncoder(out).Encode(&refReply{Kind: r.Kind, Err: r.Err, Out: r.Out})
}

func pristineFresh(spec *ModelSpec, in map[string]*val.V, flavour map[string]string, fault *OpFault) *refResult {
	self, err := os.Executable()
	if err != nil {
		panic(err)
	}
	rq, _ := json.Marshal(&refRequest{Bytes: spec.Bytes, Inputs: in, Flavour: flavour, Fault: fault})
	cmd := exec.Command(self, "refcall")
	cmd.Stdin = bytes.NewReader(rq)
	var so, se bytes.Buffer
	cmd.Stdout, cmd.Stderr = &so, &se
	if err := cmd.Run(); err != nil {
		panic(fmt.Sprintf("pristine reference process failed: %v: %s", err, se.String()))
	}
	var rp refReply
	if err := json.Unmarshal(so.Bytes(), &rp); err != nil {
		panic(fmt.Sprintf("pristine reference reply: %v", err))
	}
	return &refResult{Kind: rp.Kind, Err: rp.Err, Out: rp.Out}
}

func hashInputs(h interface{ Write([]byte) (int, error) }, in map[string]*val.V) {
	var b [8]byte
	for _, k := range sortedKeys(in) {
		h.Write([]byte(k))
		binary.LittleEndian.PutUint64(b[:], in[k].Hash())
		h.Write(b[:])
	}
}

// fresh executes one Run alone on a freshly loaded Model with brand-new tensor objects holding `in`.
func (rc *refCache) fresh(spec *ModelSpec, in map[string]*val.V, fault *OpFault, attrib bool) *refResult {
	return rc.freshF(spec, in, nil, fault, attrib)
}

// freshF: as fresh, with the caller's tensor flavours (the reference call passes tensors of the same flavour).
func (rc *refCache) freshF(spec *ModelSpec, in map[string]*val.V, flavour map[string]string, fault *OpFault, attrib bool) *refResult {
	h := fnv.New64a()
	h.Write(spec.Bytes)
	hashInputs(h, in)
	for _, k := range sortedKeys(flavour) {
		h.Write([]byte(k + "=" + flavour[k] + ";"))
	}
	if fault != nil {
		fmt.Fprintf(h, "|%d|%s|%s", fault.Node, fault.When, fault.Mode)
	}
	if attrib {
		h.Write([]byte("A"))
	}
	key := h.Sum64()
	if r, ok := rc.m[key]; ok {
		return r
	}
	if rc.pristine {
		r := pristineFresh(spec, in, flavour, fault)
		rc.m[key] = r
		return r
	}
	r := &refResult{}
	var m *gonnx.Model
	k, e := guardRun(func() (err error) { m, err = gonnx.NewModelFromBytes(spec.Bytes); return })
	if k != "ok" {
		r.Kind, r.Err, r.LoadErr = k, e, k+": "+e
		rc.m[key] = r
		return r
	}
	ctx := &callCtx{fault: fault, attrib: attrib}
	ex := &executor{}
	m.GetOperator = ex.wrapGetter(m.GetOperator, func() *callCtx { return ctx })
	tin := gonnx.Tensors{}
	for name, v := range in {
		tin[name] = makeTensor(v, flavour[name])
	}
	var out gonnx.Tensors
	r.Kind, r.Err = guardRun(func() (err error) { out, err = m.Run(tin); return })
	if r.Kind == "ok" {
		r.Out = snapAll(out)
	}
	r.Trace = ctx.trace
	rc.m[key] = r
	return r
}

func (rc *refCache) freshIntro(spec *ModelSpec) *refResult {
	h := fnv.New64a()
	h.Write(spec.Bytes)
	h.Write([]byte("intro"))
	key := h.Sum64()
	if r, ok := rc.m[key]; ok {
		return r
	}
	r := &refResult{}
	var m *gonnx.Model
	k, e := guardRun(func() (err error) { m, err = gonnx.NewModelFromBytes(spec.Bytes); return })
	r.Kind, r.Err = k, e
	if k == "ok" {
		r.Kind, r.Err = guardRun(func() error { r.Intro = introspect(m); return nil })
		_, params := gonnx.VerifState(m)
		r.LoadW = snapAll(params)
	}
	rc.m[key] = r
	return r
}

func equalOuts(a, b map[string]*val.V) (bool, string) {
	if len(a) != len(b) {
		return false, fmt.Sprintf("%d outputs vs %d", len(a), len(b))
	}
	for _, k := range sortedKeys(a) {
		bv, ok := b[k]
		if !ok {
			return false, "output " + k + " missing"
		}
		if !val.Equal(a[k], bv) {
			return false, fmt.Sprintf("output %q: %s", k, val.Diff(a[k], bv))
		}
	}
	return true, ""
}
