// Package callsim is the call simulator: simulated callers ("tasks") drive the real
// gonnx Model API through scripted call histories, serially (C02, C06) or under a
// seeded statement-level scheduler over an instrumented copy of the library (C17),
// with call faults injected through the Model.GetOperator seam. The oracle is the
// same call executed alone on a freshly loaded Model.
package callsim

import (
	"verifsim/val"
)

// ModelSpec is a model file known to the world.
type ModelSpec struct {
	Name  string   `json:"name"`
	Bytes []byte   `json:"bytes"`
	Ops   []string `json:"ops,omitempty"`
	// ShareProto: load through gonnx.ModelProtoFromBytes once per world and gonnx.NewModel(mp) for every spec with
	// these bytes, so that several Models wrap ONE protobuf (the exported API allows it).
	ShareProto bool `json:"share_proto,omitempty"`
}

// OpFault injects a failure of a (user-registered or built-in) operator at one node of one Run.
type OpFault struct {
	Node int    `json:"node"`
	When string `json:"when"` // get | init | validate | apply | after
	Mode string `json:"mode"` // error | panic
}

// Call kinds.
const (
	KRun        = "run"        // Run with fresh tensor objects holding Inputs
	KSame       = "same"       // Run again with the very tensor objects of call Ref of this task
	KRefill     = "refill"     // the caller re-uses its buffers: the tensor objects of call Ref, overwritten in place with Inputs, are passed again
	KFeedback   = "feedback"   // Run with the outputs of call Ref wherever they fit a declared input, fresh objects elsewhere
	KBad        = "bad"        // Run with one deliberately invalid input (Inputs already holds the bad set)
	KOpFault    = "opfault"    // Run during which an operator fails or panics at node Fault.Node
	KIntrospect = "introspect" // the read-only accessors that walk the shared protobuf
	KLoad       = "load"       // load another model (LoadBytes) while others are running
	KPiece      = "piece"      // C06: Run on one piece of a sequence, state carried from call Ref
)

// Call is one operation of a task's script.
type Call struct {
	Kind      string            `json:"kind"`
	Model     int               `json:"model"`
	Inputs    map[string]*val.V `json:"inputs,omitempty"`
	Ref       int               `json:"ref"`
	Note      string            `json:"note,omitempty"`
	Fault     *OpFault          `json:"fault,omitempty"`
	LoadBytes []byte            `json:"load_bytes,omitempty"`
	// Carry (C06 pieces): input name <- output name of call Ref
	Carry map[string]string `json:"carry,omitempty"`
	// Alias (run): input name -> other input name whose very tensor OBJECT is passed for it too (the two hold equal
	// values; the caller made one tensor and passed it twice).
	Alias map[string]string `json:"alias,omitempty"`
	// Rearrange (refill): instead of overwriting the contents, the caller passes the earlier call's tensor objects
	// "swapped" (each under the next input name) or after reshaping them in place ("reshaped": extents reversed).
	Rearrange string `json:"rearrange,omitempty"`
	// CarryBacking (pieces): the caller carries the state as the plain slice it got from Data() and wraps it in a NEW
	// tensor for the next piece; the tensor object Run returned is dropped.
	CarryBacking bool `json:"carry_backing,omitempty"`
	// CarryAll (feedback): the caller also leaves every tensor of call Ref's result map in the input map, under its
	// output name (a streaming loop that does `inputs = merge(prevOutputs, newInputs)`).
	CarryAll bool `json:"carry_all,omitempty"`
	// Flavour: how the caller builds the tensor object for an input (same for the reference): "" plain,
	// "lazyT" a lazily transposed tensor (x.T() without Transpose()), "view" a slice of a larger tensor.
	Flavour map[string]string `json:"flavour,omitempty"`
	// Scribble (introspect): after reading the accessors' answers the caller overwrites what it was handed
	// (maps, slices, names): they are the caller's copies and the Model must not care.
	Scribble bool `json:"scribble,omitempty"`
	// RetryOf (C06 pieces): 1 + index of an earlier, aborted attempt of this same piece whose very tensor
	// objects are passed again (0 = not a retry).
	RetryOf int `json:"retry_of,omitempty"`
}

type Task struct {
	Calls []Call `json:"calls"`
}

// World: the shared models and the tasks.
type World struct {
	Models []ModelSpec `json:"models"`
	Tasks  []Task      `json:"tasks"`
	// CopyModels: every task works on its own shallow copy of each shared Model struct (`c := *m`; Model is an
	// exported plain struct, so callers can and do hold it by value); the copies share everything behind it.
	CopyModels bool `json:"copy_models,omitempty"`
	// MapSeed seeds the map-iteration-order seam of instrumented builds.
	MapSeed uint64 `json:"map_seed"`
	// Collect (serial engines): after every call the caller lets go of every tensor it will not pass again (inputs
	// and outputs of earlier calls that no later call of its script refers to; of a piece, everything but the carried
	// states), and a garbage collection including a finalizer pass happens - memory pressure at the worst moment.
	Collect bool `json:"collect,omitempty"`
	// Env: environment variables (of those the code under test reads) set while the world executes and while its
	// references are computed.
	Env map[string]string `json:"env,omitempty"`
	// Clock: simulated time moved forward by Clock[k mod len] nanoseconds before the k-th executed call of the
	// world; only drawn when the tree reads the clock. The references are computed whenever they are computed - a
	// result must not depend on the time.
	Clock []int64 `json:"clock,omitempty"`
}

// Case is a world plus how it is executed.
type Case struct {
	Prop  string `json:"prop"`
	World World  `json:"world"`
	// Order (serial execution): sequence of task ids; each occurrence runs that task's next call.
	Order []int `json:"order,omitempty"`
	// Sched (scheduled execution): explicit preemption list. nil with Order==nil means "tasks one after another".
	Sched *Schedule `json:"sched,omitempty"`
	// Sessions (C06): expectations about piecewise processing, see c06.go.
	Sessions []Session `json:"sessions,omitempty"`
	Policy   string    `json:"policy,omitempty"` // documentation only
	// Warm: execute the world this many times in the same process before the judged execution. Set by the
	// driver when a violation needs a "warm" process (state that outlives Models, e.g. a package-level cache)
	// and therefore does not show in a fresh process on the first execution.
	Warm int `json:"warm,omitempty"`
	// Battery: a sentinel model and inputs whose result was recorded when the process was still pristine and
	// must be the same after the world(s) have run (process-level state must not change what a Run computes).
	Battery *BatteryEntry `json:"battery,omitempty"`
	// PristineRef: judge against references computed in brand-new OS processes (one per call).
	PristineRef bool `json:"pristine_ref,omitempty"`
	// Prelude: the worlds the same worker process executed immediately before this one (recorded on violations
	// only; replay executes them first, minimisation drops what is not needed).
	Prelude []Case `json:"prelude,omitempty"`
}

// BatteryEntry is one sentinel: a model file, one input set and what a fresh Model returned for it at the very
// beginning of the process.
type BatteryEntry struct {
	Name   string            `json:"name"`
	Op     string            `json:"op"`
	Bytes  []byte            `json:"bytes"`
	Inputs map[string]*val.V `json:"inputs"`
	Kind   string            `json:"kind,omitempty"`
	Out    map[string]*val.V `json:"out,omitempty"`
}
