package callsim

import (
	"fmt"
	"hash/fnv"
	"math"
	"os"
	"path/filepath"

	"verifsim/corpus"
	"verifsim/evid"
	"verifsim/mb"
	"verifsim/rng"
	"verifsim/val"
)

// Session: one sequence processed in pieces by one task, with the state carried by the caller.
type Session struct {
	Task   int               `json:"task"`
	Model  int               `json:"model"`
	Kind   string            `json:"kind"`
	Pieces []int             `json:"pieces"` // call indices within the task
	Whole  map[string]*val.V `json:"whole"`  // inputs of the reference whole-sequence Run
	Cuts   []int             `json:"cuts"`
	Config string            `json:"config"`
	// WholeModel: 1 + index of the model the whole-sequence reference runs on when it is not Model (0 = Model).
	// Used by "stateless start" sessions: the whole run and the first piece use a twin model WITHOUT initial-state
	// inputs (state absent = zeros), later pieces the model with state inputs.
	WholeModel int `json:"whole_model,omitempty"`
	// Layout (defaults: sequence axis 0 of X and Y, outputs Y / Y_h / Y_c)
	SeqAxis int    `json:"seq_axis,omitempty"`
	YOut    string `json:"y_out,omitempty"`
	HOut    string `json:"h_out,omitempty"`
	COut    string `json:"c_out,omitempty"`
}

func (s *Session) names() (y, h, c string) {
	y, h, c = s.YOut, s.HOut, s.COut
	if y == "" {
		y = "Y"
	}
	if h == "" {
		h = "Y_h"
	}
	if c == "" && s.Kind == "LSTM" {
		c = "Y_c"
	}
	return
}

// sliceAxis returns v[..., a:b, ...] along axis.
func sliceAxis(v *val.V, axis, a, b int) *val.V {
	outer := val.NElems(v.Shape[:axis])
	inner := val.NElems(v.Shape[axis+1:])
	n := v.Shape[axis]
	o := &val.V{DT: v.DT, Shape: append([]int{}, v.Shape...)}
	o.Shape[axis] = b - a
	for i := 0; i < outer; i++ {
		base := i * n * inner
		o.Bits = append(o.Bits, v.Bits[base+a*inner:base+b*inner]...)
	}
	return o
}

// concatAxis joins values along axis (all other extents equal); nil if they do not fit.
func concatAxis(vs []*val.V, axis int) *val.V {
	if len(vs) == 0 || vs[0] == nil || axis >= len(vs[0].Shape) {
		return nil
	}
	outer := val.NElems(vs[0].Shape[:axis])
	inner := val.NElems(vs[0].Shape[axis+1:])
	o := &val.V{DT: vs[0].DT, Shape: append([]int{}, vs[0].Shape...)}
	total := 0
	for _, v := range vs {
		if v == nil || v.Bad != "" || len(v.Shape) != len(o.Shape) || val.NElems(v.Shape[:axis]) != outer || val.NElems(v.Shape[axis+1:]) != inner {
			return nil
		}
		total += v.Shape[axis]
	}
	o.Shape[axis] = total
	for i := 0; i < outer; i++ {
		for _, v := range vs {
			n := v.Shape[axis]
			o.Bits = append(o.Bits, v.Bits[i*n*inner:(i+1)*n*inner]...)
		}
	}
	return o
}

// recModel is a recurrent model whose X has dynamic seq and batch axes and whose states are graph inputs.
type recModel struct {
	spec   ModelSpec
	cfg    corpus.Recurrent
	xName  string
	hName  string
	cName  string
	nNodes int
	// stateless: the same node and weights without initial_h / initial_c inputs
	stateless ModelSpec
	// halfTwin[k] (LSTM only): the same node and weights with only initial_h (k = 0) or only initial_c (k = 1) absent
	halfTwin [2]ModelSpec
}

func drawRecModel(r *rng.R, kind string) recModel {
	cfg := corpus.DrawRecurrent(r, kind)
	if r.Chance(1, 70) {
		// sizes at which implementations start to block, chunk or parallelise (seq*batch*hidden beyond 2^16)
		cfg.Input = []int{16, 32, 70}[r.Intn(3)]
		cfg.Hidden = []int{64, 128, 130}[r.Intn(3)]
	}
	cfg.HasH0 = true
	if kind == "LSTM" {
		cfg.HasC0 = true
	}
	oc := cfg.OpCase(r, rng.New(1), 2, 2, true)
	// B, P, W, R in either encoding, or as Constant nodes
	binds := make([]string, len(oc.Operands))
	for i, o := range oc.Operands {
		if o.V != nil && o.Weight {
			binds[i] = []string{corpus.BInitRaw, corpus.BInitTyp, corpus.BInitRaw, corpus.BConst}[r.Intn(4)]
		}
	}
	e := corpus.Bind("c06/"+kind, []corpus.OpCase{oc}, binds, true)
	// twin without state inputs (operands 5 and 6 absent), same weights and bindings
	oc2 := oc
	oc2.Operands = append([]corpus.Operand{}, oc.Operands...)
	for i := 5; i <= 6 && i < len(oc2.Operands); i++ {
		oc2.Operands[i] = corpus.Operand{BatchAxis: -1}
	}
	for len(oc2.Operands) > 3 && oc2.Operands[len(oc2.Operands)-1].V == nil {
		oc2.Operands = oc2.Operands[:len(oc2.Operands)-1]
	}
	e2 := corpus.Bind("c06/"+kind+"/stateless", []corpus.OpCase{oc2}, binds, true)
	for i := range e2.Model.Inputs {
		if e2.Model.Inputs[i].Name == "a0" {
			e2.Model.Inputs[i].Shape = []int64{0, 0, int64(cfg.Input)}
		}
	}
	var half [2]ModelSpec
	if kind == "LSTM" && len(oc.Operands) > 6 {
		for k := 0; k < 2; k++ {
			oc3 := oc
			oc3.Operands = append([]corpus.Operand{}, oc.Operands...)
			oc3.Operands[5+k] = corpus.Operand{BatchAxis: -1}
			for len(oc3.Operands) > 3 && oc3.Operands[len(oc3.Operands)-1].V == nil {
				oc3.Operands = oc3.Operands[:len(oc3.Operands)-1]
			}
			e3 := corpus.Bind(fmt.Sprintf("c06/%s/half%d", kind, k), []corpus.OpCase{oc3}, binds, true)
			for i := range e3.Model.Inputs {
				switch e3.Model.Inputs[i].Name {
				case "a0":
					e3.Model.Inputs[i].Shape = []int64{0, 0, int64(cfg.Input)}
				case "a5", "a6":
					e3.Model.Inputs[i].Shape = []int64{1, 0, int64(cfg.Hidden)}
				}
			}
			hb := e3.Model.Bytes()
			hh := fnv.New64a()
			hh.Write(hb)
			half[k] = ModelSpec{Name: fmt.Sprintf("c06/half-twin%d/%s#%016x", k, cfg.String(), hh.Sum64()), Bytes: hb, Ops: []string{kind}}
		}
	}
	rm := recModel{cfg: cfg, xName: "a0", hName: "a5", nNodes: len(e.Model.Nodes), halfTwin: half}
	if kind == "LSTM" {
		rm.cName = "a6"
	}
	for i := range e.Model.Inputs {
		io := &e.Model.Inputs[i]
		switch io.Name {
		case "a0":
			io.Shape = []int64{0, 0, int64(cfg.Input)}
		case "a5", "a6":
			io.Shape = []int64{1, 0, int64(cfg.Hidden)}
		}
	}
	if r.Chance(1, 6) {
		// the state does not reach the recurrent node straight from a graph input but as the RESULT of another node
		// (an encoder's final state, a Reshape / Unsqueeze an exporter put in front): an intermediate tensor whose only
		// reader sits behind the skipped sequence_lens slot
		shp := &val.V{DT: val.Int64, Shape: []int{3}, Bits: []uint64{1, ^uint64(0), uint64(cfg.Hidden)}}
		e.Model.Inits = append(e.Model.Inits, mb.Init{Name: "state_shape", V: shp, Raw: r.Bool()})
		var pre []mb.Node
		for i := range e.Model.Nodes {
			in := append([]string{}, e.Model.Nodes[i].In...)
			for k := range in {
				if in[k] == "a5" || in[k] == "a6" {
					pre = append(pre, mb.Node{Op: "Reshape", In: []string{in[k], "state_shape"}, Out: []string{in[k] + "_r"}})
					in[k] = in[k] + "_r"
				}
			}
			e.Model.Nodes[i].In = in
		}
		e.Model.Nodes = append(pre, e.Model.Nodes...)
		rm.nNodes = len(e.Model.Nodes)
	} else if r.Chance(1, 6) {
		// a streaming graph whose state inputs carry the names of its state outputs (the result map can be fed straight
		// back): the recurrent node re-binds Y_h / Y_c in mid-graph
		ren := map[string]string{"a5": "Y_h", "a6": "Y_c"}
		for i := range e.Model.Inputs {
			if nn, ok := ren[e.Model.Inputs[i].Name]; ok {
				e.Model.Inputs[i].Name = nn
			}
		}
		for i := range e.Model.Nodes {
			in := append([]string{}, e.Model.Nodes[i].In...)
			for k := range in {
				if nn, ok := ren[in[k]]; ok {
					in[k] = nn
				}
			}
			e.Model.Nodes[i].In = in
		}
		rm.hName = "Y_h"
		if kind == "LSTM" {
			rm.cName = "Y_c"
		}
	}
	// optionally post-process Y with an elementwise node so that the pieces flow through more than one operator
	if !cfg.NoY && r.Chance(1, 3) {
		e.Model.Nodes = append(e.Model.Nodes, mb.Node{Op: "Tanh", In: []string{"Y"}, Out: []string{"Yt"}})
		e.Model.Outputs = append(e.Model.Outputs, mb.IO{Name: "Yt", NoShape: true})
	}
	rm.spec = ModelSpec{Name: "c06/" + cfg.String() + fmt.Sprint(e.Bindings), Bytes: e.Model.Bytes(), Ops: []string{kind}}
	tb := e2.Model.Bytes()
	th := fnv.New64a()
	th.Write(tb)
	rm.stateless = ModelSpec{Name: fmt.Sprintf("c06/stateless-twin/%s#%016x", cfg.String(), th.Sum64()), Bytes: tb, Ops: []string{kind}}
	return rm
}

// slice rows [a,b) along axis 0.
func rows(v *val.V, a, b int) *val.V {
	per := val.NElems(v.Shape[1:])
	o := &val.V{DT: v.DT, Shape: append([]int{b - a}, v.Shape[1:]...)}
	o.Bits = append([]uint64{}, v.Bits[a*per:b*per]...)
	return o
}

// buildSession appends the pieces of one session to task t (calls are appended, gaps may be filled by the caller).
func buildSession(r *rng.R, rm recModel, mi int, seq, batch int, cuts []int) (whole map[string]*val.V, pieces []Call) {
	X := corpus.RandF32(r, []int{seq, batch, rm.cfg.Input}, -1, 1)
	h0 := corpus.RandF32(r, []int{1, batch, rm.cfg.Hidden}, -1, 1)
	structure(r, X, h0)
	whole = map[string]*val.V{rm.xName: X, rm.hName: h0}
	var c0 *val.V
	if rm.cName != "" {
		c0 = corpus.RandF32(r, []int{1, batch, rm.cfg.Hidden}, -1, 1)
		whole[rm.cName] = c0
	}
	bounds := append(append([]int{0}, cuts...), seq)
	for i := 0; i+1 < len(bounds); i++ {
		in := map[string]*val.V{rm.xName: rows(X, bounds[i], bounds[i+1]), rm.hName: h0.Clone()}
		if c0 != nil {
			in[rm.cName] = c0.Clone()
		}
		call := Call{Kind: KPiece, Model: mi, Inputs: in, Ref: -1}
		if i > 0 {
			call.Carry = map[string]string{rm.hName: "Y_h"}
			if c0 != nil {
				call.Carry[rm.cName] = "Y_c"
			}
		}
		pieces = append(pieces, call)
	}
	return whole, pieces
}

// structure gives a third of the sessions input DATA with structure a real caller's data has and random numbers
// never have: batch rows that agree (replicated beams, a shared start-of-sequence frame), one-hot and scaled one-hot
// rows, repeated or periodic frames, silent rows, equal initial states. A fast path chosen once per call from a look at
// the data sees a different picture in the whole sequence and in a piece.
func structure(r *rng.R, X, h0 *val.V) {
	if !r.Chance(1, 3) {
		return
	}
	seq, batch, in := X.Shape[0], X.Shape[1], X.Shape[2]
	at := func(t, b, i int) *uint64 { return &X.Bits[(t*batch+b)*in+i] }
	copyRow := func(t, b, t2, b2 int) {
		for i := 0; i < in; i++ {
			*at(t, b, i) = *at(t2, b2, i)
		}
	}
	one := uint64(math.Float32bits(1))
	for n := r.Range(1, 2); n > 0; n-- {
		switch r.Intn(12) {
		case 11: // a burst followed by near silence: from some frame on almost everything is zero, a few rows keep two non-zeros
			a := r.Range(1, seq)
			for t := a; t < seq; t++ {
				for b := 0; b < batch; b++ {
					keep := r.Chance(1, 3) && in >= 2
					k1, k2 := r.Intn(in), r.Intn(in)
					for i := 0; i < in; i++ {
						if !(keep && (i == k1 || i == k2)) {
							*at(t, b, i) = 0
						}
					}
				}
			}
		case 10: // consecutive frames that are nearly, but not bit for bit, equal (a slowly drifting signal)
			a := r.Intn(seq)
			for t := a + 1; t < seq && t < a+r.Range(2, 4); t++ {
				for b := 0; b < batch; b++ {
					copyRow(t, b, t-1, b)
					for i := 0; i < in; i++ {
						if r.Bool() {
							*at(t, b, i) ^= uint64(1 + r.Intn(3)) // the last mantissa bits
						}
					}
				}
			}
		case 0: // every batch row starts with the same frame
			for b := 1; b < batch; b++ {
				copyRow(0, b, 0, 0)
			}
		case 1: // the batch is one sample replicated, for the first k frames or throughout
			k := seq
			if r.Bool() {
				k = r.Range(1, seq)
			}
			for t := 0; t < k; t++ {
				for b := 1; b < batch; b++ {
					copyRow(t, b, t, 0)
				}
			}
		case 2, 3: // one-hot rows (exactly 1.0), in all frames or in all but one
			skip := -1
			if r.Bool() {
				skip = r.Intn(seq)
			}
			scaled := r.Chance(1, 2)
			for t := 0; t < seq; t++ {
				if t == skip {
					continue
				}
				for b := 0; b < batch; b++ {
					k := r.Intn(in)
					for i := 0; i < in; i++ {
						if i != k {
							*at(t, b, i) = 0
						} else if !scaled || r.Chance(1, 2) {
							*at(t, b, i) = one
						}
					}
				}
			}
		case 4: // a stretch of repeated frames
			a := r.Intn(seq)
			for t := a + 1; t < seq && t < a+r.Range(2, 4); t++ {
				for b := 0; b < batch; b++ {
					copyRow(t, b, a, b)
				}
			}
		case 5: // period 2
			for t := 2; t < seq; t++ {
				for b := 0; b < batch; b++ {
					copyRow(t, b, t-2, b)
				}
			}
		case 6: // one batch row silent
			b := r.Intn(batch)
			for t := 0; t < seq; t++ {
				for i := 0; i < in; i++ {
					*at(t, b, i) = 0
				}
			}
		case 7: // two batch rows equal throughout
			if batch >= 2 {
				b1, b2 := r.Intn(batch), r.Intn(batch)
				for t := 0; t < seq; t++ {
					copyRow(t, b1, t, b2)
				}
			}
		case 8: // equal initial states for all rows
			hid := h0.Shape[2]
			for b := 1; b < batch; b++ {
				copy(h0.Bits[b*hid:(b+1)*hid], h0.Bits[:hid])
			}
		case 9: // the sequence read backwards equals itself
			for t := 0; t < seq/2; t++ {
				for b := 0; b < batch; b++ {
					copyRow(seq-1-t, b, t, b)
				}
			}
		}
	}
}

func drawCuts(r *rng.R, seq int) []int {
	np := r.Range(2, 4)
	if np > seq {
		np = seq
	}
	// choose np-1 distinct cut points in 1..seq-1
	p := r.Perm(seq - 1)
	cuts := make([]int, 0, np-1)
	for _, x := range p[:np-1] {
		cuts = append(cuts, x+1)
	}
	for i := range cuts {
		for j := i + 1; j < len(cuts); j++ {
			if cuts[j] < cuts[i] {
				cuts[i], cuts[j] = cuts[j], cuts[i]
			}
		}
	}
	return cuts
}

// drawWorld06: 1-2 recurrent models, 1-3 tasks each running 1-2 sessions; between the pieces other things
// happen on the same Model: another session's pieces, rejected calls, aborted calls, reloads.
func drawWorld06(r *rng.R) *Case {
	kinds := []string{"RNN", "GRU", "LSTM"}
	c := &Case{Prop: "C06", Policy: "sessions-serial-interleaved"}
	var rms []recModel
	nm := 1 + r.Intn(2)
	for i := 0; i < nm; i++ {
		rm := drawRecModel(r, kinds[r.Intn(3)])
		rms = append(rms, rm)
		c.World.Models = append(c.World.Models, rm.spec)
	}
	// a sixth of the worlds run under memory pressure: callers let go of what they do not carry, and a collection with
	// a finalizer pass follows every call
	c.World.Collect = r.Chance(1, 6)
	nt := 1 + r.Intn(3)
	var order []int
	for ti := 0; ti < nt; ti++ {
		var t Task
		ns := 1 + r.Intn(2)
		for s := 0; s < ns; s++ {
			mi := r.Intn(len(rms))
			rm := rms[mi]
			seq := r.Range(2, 8)
			if r.Chance(1, 20) {
				seq = []int{17, 33, 65, 100, 130}[r.Intn(5)] // long sequences: step counters, preallocated outputs, chunked loops
			}
			if r.Chance(1, 150) {
				seq = []int{257, 300, 520}[r.Intn(3)]
			}
			batch := r.Range(1, 3)
			if r.Chance(1, 12) {
				batch = r.Range(4, 9)
			}
			if rm.cfg.Hidden >= 64 {
				batch = []int{1, 4, 8}[r.Intn(3)]
				seq = []int{5, 60, 96, 100, 130}[r.Intn(5)]
			}
			cuts := drawCuts(r, seq)
			whole, pieces := buildSession(r, rm, mi, seq, batch, cuts)
			if r.Chance(1, 4) {
				// this caller carries the state as the slice it got from Data(), wrapped in a new tensor per piece
				for pi := range pieces {
					if len(pieces[pi].Carry) > 0 {
						pieces[pi].CarryBacking = true
					}
				}
			}
			sess := Session{Task: ti, Model: mi, Kind: rm.cfg.Kind, Whole: whole, Cuts: cuts, Config: rm.cfg.String()}
			if r.Chance(1, 3) {
				// stateless start: no initial state for the whole run and the first piece (twin model), carried state after
				twin := -1
				for k, ms := range c.World.Models {
					if ms.Name == rm.stateless.Name {
						twin = k
					}
				}
				if twin < 0 {
					c.World.Models = append(c.World.Models, rm.stateless)
					twin = len(c.World.Models) - 1
				}
				sess.WholeModel = twin + 1
				sess.Whole = map[string]*val.V{rm.xName: whole[rm.xName]}
				sess.Config += " stateless-start"
				pieces[0].Model = twin
				pieces[0].Inputs = map[string]*val.V{rm.xName: pieces[0].Inputs[rm.xName]}
				if k := len(whole[rm.xName].Bits) % 2; rm.halfTwin[k].Bytes != nil && cuts[0]%3 != 0 && whole[rm.hName] != nil && whole[rm.cName] != nil {
					// half-stateless start (wave 17, C06-s32): exactly one of the two LSTM states is absent in the first
					// piece (half twin), while the whole-sequence reference runs on the model with both state inputs and
					// spells the absent one as explicit zeros - ONNX defines an absent initial state as the zero state.
					// Chosen from values already drawn: no further draw, every other world stays what it was.
					absent, present, twinPresent := rm.hName, rm.cName, "a6"
					if k == 1 {
						absent, present, twinPresent = rm.cName, rm.hName, "a5"
					}
					ht := -1
					for j, ms := range c.World.Models {
						if ms.Name == rm.halfTwin[k].Name {
							ht = j
						}
					}
					if ht < 0 {
						c.World.Models = append(c.World.Models, rm.halfTwin[k])
						ht = len(c.World.Models) - 1
					}
					zero := &val.V{DT: whole[absent].DT, Shape: append([]int{}, whole[absent].Shape...), Bits: make([]uint64, len(whole[absent].Bits))}
					sess.WholeModel = 0
					sess.Whole = map[string]*val.V{rm.xName: whole[rm.xName], absent: zero, present: whole[present]}
					sess.Config += " half-stateless-start:" + absent + "-absent"
					pieces[0].Model = ht
					pieces[0].Inputs = map[string]*val.V{rm.xName: pieces[0].Inputs[rm.xName], twinPresent: whole[present]}
				}
			}
			prev := -1
			for _, p := range pieces {
				// faults between pieces
				switch r.Intn(8) {
				case 0:
					bad, note := corrupt(r, p.Inputs)
					t.Calls = append(t.Calls, Call{Kind: KBad, Model: mi, Inputs: bad, Ref: -1, Note: note})
				case 1:
					t.Calls = append(t.Calls, Call{Kind: KOpFault, Model: mi, Inputs: cloneSet(p.Inputs), Ref: -1, Fault: drawFault(r, rm.nNodes)})
				case 2:
					t.Calls = append(t.Calls, Call{Kind: KLoad, Model: mi, LoadBytes: append([]byte{}, rm.spec.Bytes...), Ref: -1, Note: "reload"})
				case 3:
					// an unrelated complete Run with other batch size on the same Model
					w2, _ := buildSession(r, rm, mi, r.Range(1, 3), r.Range(1, 3), nil)
					t.Calls = append(t.Calls, Call{Kind: KRun, Model: mi, Inputs: w2, Ref: -1})
				}
				p.Ref = prev
				if r.Chance(1, 4) {
					// the piece is first attempted and aborted (the operator, or something after it, fails once the
					// recurrent node has run), then retried by the caller with the very same tensors
					att := p
					att.Inputs = cloneSet(p.Inputs)
					att.Fault = &OpFault{Node: rm.nNodes - 1, When: []string{"after", "after", "apply", "validate"}[r.Intn(4)], Mode: []string{"error", "panic"}[r.Intn(2)]}
					att.Note = "aborted attempt"
					t.Calls = append(t.Calls, att)
					p.RetryOf = len(t.Calls)
					p.Note = "retry with the same tensors"
				}
				t.Calls = append(t.Calls, p)
				prev = len(t.Calls) - 1
				sess.Pieces = append(sess.Pieces, prev)
			}
			c.Sessions = append(c.Sessions, sess)
		}
		c.World.Tasks = append(c.World.Tasks, t)
		for range t.Calls {
			order = append(order, ti)
		}
	}
	p := r.Perm(len(order))
	c.Order = make([]int, len(order))
	for i, j := range p {
		c.Order[i] = order[j]
	}
	return c
}

// judge06: pieces with carried state must reproduce the whole-sequence Run bit for bit.
func judge06(c *Case, wr *worldRun, rc *refCache) []verdict {
	if len(c.World.Env) > 0 {
		defer evid.ApplyEnv(c.World.Env)()
		rc = &refCache{m: map[uint64]*refResult{}, pristine: rc.pristine}
	}
	var vs []verdict
	for si, s := range c.Sessions {
		wm := s.Model
		if s.WholeModel > 0 {
			wm = s.WholeModel - 1
		}
		ref := rc.fresh(&c.World.Models[wm], s.Whole, nil, false)
		add := func(sig, what string) {
			vs = append(vs, verdict{sig: sig, what: fmt.Sprintf("session %d (task %d, %s, cuts %v): %s", si, s.Task, s.Config, s.Cuts, what), task: s.Task})
		}
		yName, hName, cName := s.names()
		var ys []*val.V
		var last *callResult
		failed := ""
		skipped := false
		for _, ci := range s.Pieces {
			res := &wr.results[s.Task][ci]
			if res.Skipped || res.Kind == "" {
				skipped = true
				break
			}
			if res.Kind != "ok" {
				failed = fmt.Sprintf("piece at call %d: %s (%s)", ci, res.Kind, clip(res.Err, 120))
				break
			}
			// the caller concatenates the pieces once the session is over: read Y as it is then
			outs := res.Out
			if res.OutLate != nil {
				outs = res.OutLate
			}
			ys = append(ys, outs[yName])
			last = res
		}
		if skipped && failed == "" {
			// a piece could not be issued because the previous one produced no state: that previous piece failed
			// and is reported below via `failed` only if it was judged; nothing more to say here
			if ref.Kind == "ok" {
				add("split-outcome-differs:"+s.Kind+":whole=ok,pieces=incomplete", "a piece could not be issued although the whole sequence runs")
			}
			continue
		}
		switch {
		case ref.Kind == "ok" && failed != "":
			add("split-outcome-differs:"+s.Kind+":whole=ok,piece=failed", "the whole sequence runs, but "+failed)
		case ref.Kind != "ok" && failed == "":
			add("split-outcome-differs:"+s.Kind+":whole=failed,pieces=ok", fmt.Sprintf("the whole sequence fails (%s: %s) but every piece runs", ref.Kind, clip(ref.Err, 120)))
		case ref.Kind == "ok":
			wy := ref.Out[yName]
			ycat := concatAxis(ys, s.SeqAxis)
			if _, requested := ref.Out[yName]; !requested {
				// Y is not among the model's outputs: only the final states can be compared
				wy, ycat = &val.V{}, &val.V{}
			}
			if wy == nil || ycat == nil || len(wy.Bits) != len(ycat.Bits) {
				add("split-differs:"+s.Kind+":Y-shape", fmt.Sprintf("the pieces' %s do not concatenate to the whole-sequence %s %v", yName, yName, wy))
				continue
			}
			for i := range ycat.Bits {
				if ycat.Bits[i] != wy.Bits[i] {
					add("split-differs:"+s.Kind+":Y", fmt.Sprintf("element %d of the concatenated %s is %#x, the whole-sequence run has %#x", i, yName, ycat.Bits[i], wy.Bits[i]))
					break
				}
			}
			lo := last.Out
			if last.OutLate != nil {
				lo = last.OutLate
			}
			if !val.Equal(ref.Out[hName], lo[hName]) {
				add("split-differs:"+s.Kind+":Y_h", "final hidden state: "+val.Diff(ref.Out[hName], lo[hName]))
			}
			if cName != "" && !val.Equal(ref.Out[cName], lo[cName]) {
				add("split-differs:"+s.Kind+":Y_c", "final cell state: "+val.Diff(ref.Out[cName], lo[cName]))
			}
		}
	}
	return vs
}

// Worker06: every split point of short sequences for each operator kind first, then seeded session worlds.
func Worker06(cfg Config) *evid.Stats {
	st := evid.NewStats()
	rn := &runner{cfg: cfg, st: st, rc: &refCache{m: map[uint64]*refResult{}}, vcap: 6, pristineEvery: 1 << 62}
	one := func(c *Case) {
		if !rn.gate(c) {
			return
		}
		wr := execute(c, nil, false, false)
		vs := judge06(c, wr, rn.rc)
		st.Evals++
		rn.note(c, wr)
		nt := false
		for _, s := range c.Sessions {
			wm := s.Model
			if s.WholeModel > 0 {
				wm = s.WholeModel - 1
				st.Probe("session_stateless_start")
			}
			ref := rn.rc.fresh(&c.World.Models[wm], s.Whole, nil, false)
			st.Probe("whole_" + ref.Kind)
			if ref.Kind == "ok" && len(s.Pieces) >= 2 {
				nt = true
				st.Probe("session_" + s.Kind)
				st.ProbeN("pieces", int64(len(s.Pieces)))
			}
		}
		if nt {
			st.NonTrivial++
			st.Hashes = append(st.Hashes, hashCase(c))
		}
		if st.Evals%101 == 1 {
			sm := sampleOf(c).(map[string]interface{})
			var ss []string
			for _, s := range c.Sessions {
				ss = append(ss, fmt.Sprintf("task %d: %s cuts=%v pieces@calls=%v", s.Task, s.Config, s.Cuts, s.Pieces))
			}
			sm["sessions"] = ss
			st.Sample(5, sm)
		}
		rn.report(c, vs)
		if len(rn.rc.m) > 20000 {
			rn.rc.m = map[uint64]*refResult{}
		}
		rn.remember(c)
	}
	// enumerated: kind x seq 2..6 x every single cut x batch 1..2, plus every pair of cuts for seq 4..5
	idx := 0
	for ki, kind := range []string{"RNN", "GRU", "LSTM"} {
		for variant := 0; variant < 6; variant++ {
			for seq := 2; seq <= 6; seq++ {
				var cutsets [][]int
				for a := 1; a < seq; a++ {
					cutsets = append(cutsets, []int{a})
					if seq >= 4 && seq <= 5 {
						for b := a + 1; b < seq; b++ {
							cutsets = append(cutsets, []int{a, b})
						}
					}
				}
				for _, cuts := range cutsets {
					mine := idx%cfg.NW == cfg.W
					idx++
					if !mine || rn.stop {
						continue
					}
					r := rng.New(rng.Mix(cfg.Seed, 0x06e, uint64(ki), uint64(variant), uint64(seq*100+cuts[0]*10+len(cuts))))
					rm := drawRecModel(rng.New(rng.Mix(cfg.Seed, 0x06f, uint64(ki), uint64(variant))), kind)
					whole, pieces := buildSession(r, rm, 0, seq, 1+variant%3, cuts)
					c := &Case{Prop: "C06", Policy: "enumerated-cuts", World: World{Models: []ModelSpec{rm.spec}}}
					var t Task
					s := Session{Task: 0, Model: 0, Kind: kind, Whole: whole, Cuts: cuts, Config: rm.cfg.String()}
					for i, p := range pieces {
						p.Ref = i - 1
						t.Calls = append(t.Calls, p)
						s.Pieces = append(s.Pieces, i)
					}
					c.World.Tasks = []Task{t}
					c.Sessions = []Session{s}
					one(c)
					st.Probe("enumerated_cut")
				}
			}
		}
	}
	// the repository's own exported GRU model (batch-first layout, Transpose/Squeeze around the GRU node): every
	// single cut for seq 2..6 and a few cuts of the 30-step sequence the repo's test uses
	if b, err := os.ReadFile(filepath.Join(cfg.RepoDir, "sample_models", "onnx_models", "gru.onnx")); err == nil {
		spec := ModelSpec{Name: "sample:gru.onnx", Bytes: b, Ops: []string{"GRU"}}
		for _, seq := range []int{2, 3, 4, 5, 6, 30} {
			cutsets := [][]int{}
			for a := 1; a < seq; a++ {
				if seq <= 6 || a == 1 || a == 7 || a == 15 || a == 29 {
					cutsets = append(cutsets, []int{a})
				}
			}
			if seq == 30 {
				cutsets = append(cutsets, []int{1, 2}, []int{10, 20}, []int{5, 6, 29})
			}
			for _, cuts := range cutsets {
				for batch := 1; batch <= 2; batch++ {
					mine := idx%cfg.NW == cfg.W
					idx++
					if !mine || rn.stop {
						continue
					}
					r := rng.New(rng.Mix(cfg.Seed, 0x06a, uint64(seq), uint64(cuts[0]), uint64(len(cuts)), uint64(batch)))
					X := corpus.RandF32(r, []int{batch, seq, 3}, -1, 1)
					h0 := corpus.RandF32(r, []int{1, batch, 5}, -1, 1)
					s := Session{Task: 0, Model: 0, Kind: "GRU", Whole: map[string]*val.V{"data_input": X, "init_hidden": h0}, Cuts: cuts,
						Config: "sample gru.onnx (batch-first)", SeqAxis: 1, YOut: "preds", HOut: "hidden_out"}
					bounds := append(append([]int{0}, cuts...), seq)
					var t Task
					for i := 0; i+1 < len(bounds); i++ {
						call := Call{Kind: KPiece, Model: 0, Ref: i - 1, Inputs: map[string]*val.V{"data_input": sliceAxis(X, 1, bounds[i], bounds[i+1]), "init_hidden": h0.Clone()}}
						if i > 0 {
							call.Carry = map[string]string{"init_hidden": "hidden_out"}
						}
						t.Calls = append(t.Calls, call)
						s.Pieces = append(s.Pieces, i)
					}
					one(&Case{Prop: "C06", Policy: "enumerated-cuts-sample-gru", World: World{Models: []ModelSpec{spec}, Tasks: []Task{t}}, Sessions: []Session{s}})
					st.Probe("enumerated_cut_sample_gru")
				}
			}
		}
	} else {
		st.Trouble = append(st.Trouble, "sample gru.onnx not found under "+cfg.RepoDir)
	}
	for i := int64(cfg.W); !rn.expired(); i += int64(cfg.NW) {
		one(drawWorld06(rng.New(rng.Mix(cfg.Seed, 0x06, uint64(i)))))
	}
	return st
}
