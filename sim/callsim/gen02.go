package callsim

import (
	"encoding/binary"
	"encoding/json"
	"fmt"
	"github.com/advancedclimatesystems/gonnx/verifsim"
	"hash/fnv"
	"math"
	"os"
	"time"

	gonnx "github.com/advancedclimatesystems/gonnx"

	"verifsim/corpus"
	"verifsim/evid"
	"verifsim/rng"
	"verifsim/val"
)

// Config of one worker.
type Config struct {
	Prop     string
	Tier     string
	Seed     uint64
	W, NW    int
	Deadline time.Time
	RepoDir  string
	Known    []evid.Finding
	Journal  string
	// EmitAt >= 0: do not execute anything; regenerate the stream of worlds and write number EmitAt to EmitOut.
	EmitAt  int64
	EmitOut string
	// StopAt > 0: execute the stream up to and including world number StopAt-1, then stop (history replay).
	StopAt int64
}

// library: what worlds are drawn from.
type library struct {
	tpls    []corpus.Template
	samples []corpus.SampleEntry
}

func newLibrary(repo string) *library {
	return &library{tpls: corpus.Templates(), samples: corpus.Samples(repo, rng.New(77))}
}

// drawnModel is a model plus its input sets.
type drawnModel struct {
	spec      ModelSpec
	inputSets []map[string]*val.V
	nNodes    int
	sensitive bool
}

// declareOutputs gives the graph outputs static shape declarations (exporters do; gonnx exposes them through
// OutputShapes): exact, dynamic on the first axis, or "mis-spelled" by a size-one axis, which some exporters produce.
// The actual output shapes are taken from one run on the first input set.
func declareOutputs(r *rng.R, e *corpus.Entry) {
	m, err := gonnx.NewModelFromBytes(e.Model.Bytes())
	if err != nil || len(e.InputSets) == 0 {
		return
	}
	in := gonnx.Tensors{}
	for k, v := range e.InputSets[0] {
		in[k] = v.Tensor()
	}
	var out gonnx.Tensors
	if kind, _ := guardRun(func() (err error) { out, err = m.Run(in); return }); kind != "ok" {
		return
	}
	for i := range e.Model.Outputs {
		o := &e.Model.Outputs[i]
		sv := val.Snap(out[o.Name])
		if sv == nil || sv.Bad != "" || sv.DT <= 0 || len(sv.Shape) == 0 {
			continue
		}
		sh := make([]int64, len(sv.Shape))
		for k, d := range sv.Shape {
			sh[k] = int64(d)
		}
		switch r.Intn(5) {
		case 0: // exact
		case 1:
			sh[0] = 0
		case 2:
			sh = append([]int64{1}, sh...)
		case 3:
			sh = append(sh, 1)
		case 4:
			for k := range sh {
				sh[k] = 0
			}
		}
		o.DT, o.Shape, o.NoShape = sv.DT, sh, false
	}
}

func fromEntry(e *corpus.Entry) drawnModel {
	return drawnModel{spec: ModelSpec{Name: e.Name + fmt.Sprint(e.Bindings), Bytes: e.Model.Bytes(), Ops: e.Ops}, inputSets: e.InputSets, nNodes: len(e.Model.Nodes), sensitive: e.Sensitive}
}

func (l *library) drawModel(r *rng.R) drawnModel {
	switch x := r.Intn(20); {
	case x < 12:
		// single operator, sensitive families twice as likely
		var idx int
		for tries := 0; tries < 2; tries++ {
			idx = r.Intn(len(l.tpls))
			if l.tpls[idx].Sensitive {
				break
			}
		}
		bind := -1
		switch r.Intn(4) {
		case 0:
			bind = -2
		case 1, 2:
			bind = r.Intn(64)
		}
		e := corpus.DrawSingle(r, l.tpls, idx, bind)
		if r.Chance(1, 5) {
			corpus.RenameTricky(r, e)
		}
		if r.Chance(1, 5) {
			declareOutputs(r, e)
		}
		if r.Chance(1, 5) {
			corpus.NameNodes(r, e)
		}
		if r.Chance(1, 5) {
			corpus.Reorder(r, e)
		}
		if r.Chance(1, 6) {
			corpus.InPlaceNames(r, e)
		}
		if r.Chance(1, 8) {
			corpus.OptionalFields(r, e)
		}
		return fromEntry(e)
	case x < 17 || len(l.samples) == 0:
		e := corpus.DrawDAG(r)
		if r.Chance(1, 5) {
			corpus.RenameTricky(r, e)
		}
		if r.Chance(1, 5) {
			declareOutputs(r, e)
		}
		if r.Chance(1, 3) {
			corpus.NameNodes(r, e)
		}
		if r.Chance(1, 4) {
			corpus.Reorder(r, e)
		}
		if r.Chance(1, 5) {
			corpus.InPlaceNames(r, e)
		}
		if r.Chance(1, 6) {
			corpus.OptionalFields(r, e)
		}
		return fromEntry(e)
	default:
		// sample models; the large one (ndm) rarely
		s := l.samples[r.Intn(len(l.samples))]
		if len(s.Bytes) > 100000 && !r.Chance(1, 6) {
			s = l.samples[0]
		}
		return drawnModel{spec: ModelSpec{Name: s.Name, Bytes: s.Bytes}, inputSets: s.InputSets, nNodes: 3, sensitive: true}
	}
}

func cloneSet(s map[string]*val.V) map[string]*val.V {
	o := make(map[string]*val.V, len(s))
	for k, v := range s {
		o[k] = v.Clone()
	}
	return o
}

// corrupt makes exactly one input of a valid set invalid.
func corrupt(r *rng.R, set map[string]*val.V) (map[string]*val.V, string) {
	o := cloneSet(set)
	names := sortedKeys(o)
	if len(names) == 0 {
		o["unexpected"] = corpus.F32([]int{1}, 1)
		return o, "unexpected extra input"
	}
	name := names[r.Intn(len(names))]
	v := o[name]
	kind := r.Intn(8)
	if kind >= 6 {
		kind = 2 // the off-by-one extent is the kind that fails deepest inside a Run: draw it more often
	}
	if r.Chance(1, 6) {
		// the same decimal digits, grouped differently: (1,12) -> (11,2), (11,3) -> (1,13), (2,130) -> (21,30).
		// Whatever summarises a shape as text without separators (a cache key, a log line parsed back) cannot tell them apart.
		if ns := regroupDigits(r, v.Shape); ns != nil && val.NElems(ns) <= 1<<16 {
			v.Shape = ns
			v.Bits = make([]uint64, val.NElems(ns))
			for i := range v.Bits {
				v.Bits[i] = set[name].Bits[i%len(set[name].Bits)]
			}
			return o, fmt.Sprintf("digits of the shape of %s regrouped to %v", name, ns)
		}
	}
	switch kind {
	case 0:
		delete(o, name)
		return o, "missing input " + name
	case 1:
		v.Shape = append([]int{1}, v.Shape...)
		return o, "extra leading axis on " + name
	case 2:
		// one extent of one input off by one: rejected by validateShapes when that axis is fixed, and otherwise
		// (dynamic axis: batch/sequence mismatch between inputs) a failure deep inside an operator's Apply
		if len(v.Shape) > 0 {
			ax := r.Intn(len(v.Shape))
			d := 1
			if v.Shape[ax] > 1 && r.Bool() {
				d = -1
			}
			v.Shape[ax] += d
			v.Bits = make([]uint64, val.NElems(v.Shape))
			for i := range v.Bits {
				v.Bits[i] = set[name].Bits[i%len(set[name].Bits)]
			}
			return o, fmt.Sprintf("extent %+d on axis %d of %s", d, ax, name)
		}
		fallthrough
	case 3:
		// wrong element type, same shape: passes validateShapes, reaches an operator's type gate
		nv := &val.V{DT: val.Int32, Shape: v.Shape, Bits: make([]uint64, len(v.Bits))}
		if v.DT == val.Int32 {
			nv.DT = val.Float64
		}
		if r.Bool() {
			// the NEAREST wrong type, holding the caller's real data: float64 for a float32 input (what a caller gets
			// from most numeric code), float32 for float64, the other integer width. A tree that starts to accept and
			// convert such inputs must then treat the call like any other.
			near := map[val.DT]val.DT{val.Float32: val.Float64, val.Float64: val.Float32, val.Int64: val.Int32, val.Int32: val.Int64}
			if nd, ok := near[v.DT]; ok {
				nv = &val.V{DT: nd, Shape: v.Shape, Bits: make([]uint64, len(v.Bits))}
				for i, b := range v.Bits {
					switch {
					case v.DT == val.Float32:
						nv.Bits[i] = math.Float64bits(float64(math.Float32frombits(uint32(b))))
					case v.DT == val.Float64:
						nv.Bits[i] = uint64(math.Float32bits(float32(math.Float64frombits(b))))
					case nd == val.Int32:
						nv.Bits[i] = uint64(uint32(int32(int64(b))))
					default:
						nv.Bits[i] = uint64(int64(int32(uint32(b))))
					}
				}
			}
		}
		o[name] = nv
		return o, "element type changed on " + name
	case 4:
		if len(v.Shape) > 1 {
			v.Shape = v.Shape[1:]
			v.Bits = v.Bits[:val.NElems(v.Shape)]
			return o, "leading axis dropped on " + name
		}
		fallthrough
	default:
		// extents permuted (same rank): caught by a fixed extent or deep inside an operator
		// (not for large tensors: where nothing validates the shape, [16500,2,1] broadcast against [16500] is a
		// legitimate 2 GB result, and sixteen workers doing that exhaust the machine)
		if len(v.Shape) >= 2 && len(v.Bits) <= 4096 {
			v.Shape[0], v.Shape[len(v.Shape)-1] = v.Shape[len(v.Shape)-1], v.Shape[0]
			return o, "extents swapped on " + name
		}
		delete(o, name)
		return o, "missing input " + name
	}
}

func drawFault(r *rng.R, nNodes int) *OpFault {
	if nNodes < 1 {
		nNodes = 1
	}
	f := &OpFault{Node: r.Intn(nNodes), When: []string{"get", "init", "validate", "apply", "after", "after"}[r.Intn(6)], Mode: "error"}
	if r.Chance(1, 3) {
		f.Mode = "panic"
	}
	return f
}

// drawTask writes a script of n calls over the given models.
func drawTask(r *rng.R, models []drawnModel, n int, allowLoad bool) Task {
	var t Task
	for len(t.Calls) < n {
		mi := r.Intn(len(models))
		dm := models[mi]
		set := func() map[string]*val.V { return cloneSet(dm.inputSets[r.Intn(len(dm.inputSets))]) }
		// earlier run-like calls of this task on this model
		var prev []int
		for i, c := range t.Calls {
			if c.Model == mi && c.Kind != KIntrospect && c.Kind != KLoad {
				prev = append(prev, i)
			}
		}
		k := r.Intn(100)
		switch {
		case k < 28 || (len(prev) == 0 && k < 60):
			c := Call{Kind: KRun, Model: mi, Inputs: set(), Ref: -1}
			if r.Chance(1, 12) {
				// the caller hands over tensors in a less common but legal state
				c.Flavour = map[string]string{}
				for _, name := range sortedKeys(c.Inputs) {
					c.Flavour[name] = []string{"lazyT", "view", ""}[r.Intn(3)]
				}
			} else if r.Chance(1, 8) {
				// one tensor object passed under two input names (x and y of Add(x, y) are the same data)
				names := sortedKeys(c.Inputs)
				for i := 0; i+1 < len(names); i++ {
					a, b := c.Inputs[names[i]], c.Inputs[names[i+1]]
					if a != nil && b != nil && a.DT == b.DT && fmt.Sprint(a.Shape) == fmt.Sprint(b.Shape) {
						c.Inputs[names[i+1]] = a.Clone()
						c.Alias = map[string]string{names[i+1]: names[i]}
						break
					}
				}
			}
			t.Calls = append(t.Calls, c)
		case k < 40 && len(prev) > 0:
			t.Calls = append(t.Calls, Call{Kind: KSame, Model: mi, Ref: prev[r.Intn(len(prev))]})
		case k < 48 && len(prev) > 0:
			// buffer re-use: the caller overwrites the tensors of an earlier call and passes them again
			ref := prev[r.Intn(len(prev))]
			rc := Call{Kind: KRefill, Model: mi, Ref: ref, Inputs: refillOf(r, t.Calls, ref, set)}
			switch r.Intn(6) {
			case 0:
				rc.Rearrange = "swapped" // the same objects, each under another input's name
			case 1:
				rc.Rearrange = "reshaped" // the caller reshaped its tensors in place
			}
			t.Calls = append(t.Calls, rc)
		case k < 60 && len(prev) > 0:
			// (a third of these callers do not pick the outputs apart: they merge the whole result map of the earlier call
			// into the next call's input map, so tensors also arrive under the names of the model's OUTPUTS)
			t.Calls = append(t.Calls, Call{Kind: KFeedback, Model: mi, Inputs: set(), Ref: prev[r.Intn(len(prev))], CarryAll: r.Chance(1, 3)})
		case k < 74:
			bad, note := corrupt(r, dm.inputSets[r.Intn(len(dm.inputSets))])
			t.Calls = append(t.Calls, Call{Kind: KBad, Model: mi, Inputs: bad, Ref: -1, Note: note})
		case k < 90:
			t.Calls = append(t.Calls, Call{Kind: KOpFault, Model: mi, Inputs: set(), Ref: -1, Fault: drawFault(r, dm.nNodes)})
		case k < 94:
			t.Calls = append(t.Calls, Call{Kind: KIntrospect, Model: mi, Ref: -1, Scribble: r.Chance(1, 2)})
		default:
			if !allowLoad {
				continue
			}
			// load another copy (sometimes damaged) of some model in between
			b := append([]byte{}, dm.spec.Bytes...)
			note := "reload"
			if r.Chance(1, 3) && len(b) > 4 {
				b[r.Intn(len(b))] ^= 1 << uint(r.Intn(8))
				note = "reload of a bit-flipped copy"
			}
			c := Call{Kind: KLoad, Model: mi, LoadBytes: b, Ref: -1, Note: note}
			if note == "reload" {
				c.Inputs = set()
			}
			t.Calls = append(t.Calls, c)
		}
	}
	return t
}

// patternWorlds: the fixed reuse patterns applied to one model (enumerated part).
func patternWorlds(dm drawnModel, r *rng.R) []*Case {
	s := func(i int) map[string]*val.V { return cloneSet(dm.inputSets[i%len(dm.inputSets)]) }
	bad, note := corrupt(r, dm.inputSets[0])
	mid := dm.nNodes - 1
	if mid < 0 {
		mid = 0
	}
	scripts := [][]Call{
		{{Kind: KRun, Inputs: s(0), Ref: -1}, {Kind: KSame, Ref: 0}, {Kind: KSame, Ref: 0}},
		{{Kind: KRun, Inputs: s(0), Ref: -1}, {Kind: KRun, Inputs: s(2), Ref: -1}, {Kind: KRun, Inputs: s(0), Ref: -1}, {Kind: KFeedback, Inputs: s(1), Ref: 0}, {Kind: KFeedback, Inputs: s(1), Ref: 3}},
		{{Kind: KRun, Inputs: s(0), Ref: -1}, {Kind: KBad, Inputs: bad, Ref: -1, Note: note}, {Kind: KRun, Inputs: s(0), Ref: -1},
			{Kind: KOpFault, Inputs: s(1), Ref: -1, Fault: &OpFault{Node: mid, When: "after", Mode: "panic"}}, {Kind: KRun, Inputs: s(1), Ref: -1}, {Kind: KSame, Ref: 3},
			{Kind: KOpFault, Inputs: s(0), Ref: -1, Fault: &OpFault{Node: mid, When: "apply", Mode: "error"}}, {Kind: KSame, Ref: 6}, {Kind: KIntrospect, Ref: -1}},
	}
	// a long history: 66 Runs alternating two input sets (crosses the small powers of two at which caches are
	// resized or evicted and counters roll over), with a rejected call in the middle
	var long []Call
	for i := 0; i < 66; i++ {
		switch {
		case i == 33:
			long = append(long, Call{Kind: KBad, Inputs: bad, Ref: -1, Note: note})
		case i%7 == 6:
			long = append(long, Call{Kind: KSame, Ref: i - 1 - (i-1)%7})
		default:
			long = append(long, Call{Kind: KRun, Inputs: s(i % 3), Ref: -1})
		}
	}
	scripts = append(scripts, long)
	var out []*Case
	for _, sc := range scripts {
		out = append(out, &Case{Prop: "C02", World: World{Models: []ModelSpec{dm.spec}, Tasks: []Task{{Calls: sc}}}, Policy: "pattern"})
	}
	return out
}

func drawWorld02(r *rng.R, lib *library) *Case {
	nm := 1
	if r.Chance(1, 3) {
		nm = 2
	}
	if r.Chance(1, 12) {
		nm = 3
	}
	var models []drawnModel
	w := World{}
	for i := 0; i < nm; i++ {
		dm := lib.drawModel(r)
		models = append(models, dm)
		w.Models = append(w.Models, dm.spec)
	}
	shareProto(r, &w, &models)
	w.Collect = r.Chance(1, 40)
	nt := 1 + r.Intn(3)
	total := r.Range(2, 10)
	if r.Chance(1, 60) {
		// a long-lived Model: hundreds of calls
		total = []int{130, 260, 520}[r.Intn(3)]
		nt = 1 + r.Intn(2)
	}
	var order []int
	for ti := 0; ti < nt; ti++ {
		n := total / nt
		if ti == 0 {
			n += total % nt
		}
		if n == 0 {
			n = 1
		}
		w.Tasks = append(w.Tasks, drawTask(r, models, n, true))
		for k := 0; k < n; k++ {
			order = append(order, ti)
		}
	}
	// random interleaving of the tasks' calls (each task's own order is kept)
	p := r.Perm(len(order))
	shuffled := make([]int, len(order))
	for i, j := range p {
		shuffled[i] = order[j]
	}
	return &Case{Prop: "C02", World: w, Order: shuffled, Policy: "serial-interleaved"}
}

// refillOf: what the caller writes into the buffers of call ref. Either a whole new input set, or the OLD contents
// rearranged (reversed, rotated, two elements exchanged, one negated pair): edits that keep sums, extrema, sizes and
// every other cheap fingerprint of the old contents.
func refillOf(r *rng.R, calls []Call, ref int, fresh func() map[string]*val.V) map[string]*val.V {
	root := ref
	for hops := 0; hops < 64 && calls[root].Inputs == nil && calls[root].Ref >= 0 && calls[root].Ref < root; hops++ {
		root = calls[root].Ref
	}
	old := calls[root].Inputs
	if old == nil || hasBadShape(old) || r.Chance(1, 3) {
		return fresh()
	}
	o := cloneSet(old)
	for _, name := range sortedKeys(o) {
		b := o[name].Bits
		if len(b) < 2 {
			continue
		}
		switch r.Intn(4) {
		case 0:
			for i, j := 0, len(b)-1; i < j; i, j = i+1, j-1 {
				b[i], b[j] = b[j], b[i]
			}
		case 1:
			first := b[0]
			copy(b, b[1:])
			b[len(b)-1] = first
		case 2:
			i, j := r.Intn(len(b)), r.Intn(len(b))
			b[i], b[j] = b[j], b[i]
		case 3:
			// unchanged on purpose: the same values written again
		}
	}
	return o
}

// regroupDigits splits the concatenated decimal digits of shape into len(shape) positive numbers without leading
// zeros in another way (nil if there is none).
func regroupDigits(r *rng.R, shape []int) []int {
	if len(shape) < 2 {
		return nil
	}
	digits := ""
	for _, e := range shape {
		if e <= 0 {
			return nil
		}
		digits += fmt.Sprint(e)
	}
	if len(digits) <= len(shape) || len(digits) > 12 {
		return nil
	}
	var all [][]int
	var rec func(pos int, cur []int)
	rec = func(pos int, cur []int) {
		if len(cur) == len(shape) {
			if pos == len(digits) {
				all = append(all, append([]int{}, cur...))
			}
			return
		}
		for end := pos + 1; end <= len(digits); end++ {
			if digits[pos] == '0' {
				return
			}
			n := 0
			fmt.Sscan(digits[pos:end], &n)
			rec(end, append(cur, n))
		}
	}
	rec(0, nil)
	var cand [][]int
	for _, s := range all {
		if fmt.Sprint(s) != fmt.Sprint(shape) {
			cand = append(cand, s)
		}
	}
	if len(cand) == 0 {
		return nil
	}
	return cand[r.Intn(len(cand))]
}

func hasBadShape(set map[string]*val.V) bool {
	for _, v := range set {
		if v == nil || val.NElems(v.Shape) != len(v.Bits) {
			return true
		}
	}
	return false
}

// nontrivial02: at least two Runs on one Model of which a later one re-uses objects, takes fed-back outputs
// or follows a failed/aborted call.
func nontrivial02(c *Case, wr *worldRun) bool {
	for ti, t := range c.World.Tasks {
		for ci, call := range t.Calls {
			if wr.results[ti][ci].Skipped {
				continue
			}
			switch call.Kind {
			case KSame, KFeedback, KRefill:
				return true
			case KRun:
				for cj := 0; cj < ci; cj++ {
					if t.Calls[cj].Model == call.Model && (t.Calls[cj].Kind == KBad || t.Calls[cj].Kind == KOpFault) {
						return true
					}
				}
			}
		}
	}
	return false
}

func hashCase(c *Case) uint64 {
	b, _ := json.Marshal(c)
	h := fnv.New64a()
	h.Write(b)
	return h.Sum64()
}

// worker bookkeeping shared by the serial engines.
type runner struct {
	envRead       bool
	envNames      []string
	cfg           Config
	st            *evid.Stats
	rc            *refCache
	stop          bool
	vcap          int
	recent        []*Case // the last few worlds this process executed
	worlds        int64
	pristineEvery int64
	seq           int64
	journal       *os.File
	battery       []BatteryEntry
	sinceBattery  int
}

// buildBattery records, while the process is still pristine, what a fresh Model returns for one fixed instance
// of every operator template (default attributes where the template has them).
func (rn *runner) buildBattery(lib *library) {
	for ti, t := range lib.tpls {
		r := rng.New(rng.Mix(0xba77e47, uint64(ti)))
		e := corpus.DrawSingle(r, lib.tpls, ti, -1)
		be := BatteryEntry{Name: t.Name, Op: e.Ops[len(e.Ops)-1], Bytes: e.Model.Bytes(), Inputs: e.InputSets[0]}
		ref := (&refCache{m: map[uint64]*refResult{}}).fresh(&ModelSpec{Bytes: be.Bytes}, be.Inputs, nil, false)
		be.Kind, be.Out = ref.Kind, ref.Out
		rn.battery = append(rn.battery, be)
	}
	for _, kind := range []string{"RNN", "GRU", "LSTM"} {
		e := corpus.DefaultRecurrentEntry(kind)
		be := BatteryEntry{Name: e.Name, Op: kind, Bytes: e.Model.Bytes(), Inputs: e.InputSets[0]}
		ref := (&refCache{m: map[uint64]*refResult{}}).fresh(&ModelSpec{Bytes: be.Bytes}, be.Inputs, nil, false)
		be.Kind, be.Out = ref.Kind, ref.Out
		rn.battery = append(rn.battery, be)
	}
}

// checkBattery re-runs the sentinels on fresh Models: whatever happened in this process since it started, they
// must return what they returned then. c is the world that was executed last.
func (rn *runner) checkBattery(c *Case) {
	for i := range rn.battery {
		be := &rn.battery[i]
		ref := (&refCache{m: map[uint64]*refResult{}}).fresh(&ModelSpec{Bytes: be.Bytes}, be.Inputs, nil, false)
		ok := ref.Kind == be.Kind
		d := fmt.Sprintf("outcome %s, at process start %s", ref.Kind, be.Kind)
		if ok && ref.Kind == "ok" {
			ok, d = equalOuts(be.Out, ref.Out)
		}
		rn.st.Probe("battery_sentinels_rechecked")
		if !ok {
			cc := cloneCase(c)
			cc.Battery = be
			rn.report(cc, []verdict{{sig: "process-state-changes-results:" + be.Op, what: fmt.Sprintf("a freshly loaded sentinel model (%s) no longer returns what it returned when this process started: %s", be.Name, d)}})
			return
		}
	}
}

// afterWorld: periodic sentinel check.
func (rn *runner) afterWorld(c *Case) {
	if len(rn.battery) == 0 {
		return
	}
	rn.sinceBattery++
	if rn.sinceBattery >= 250 {
		rn.sinceBattery = 0
		rn.checkBattery(c)
	}
}

// gate is called with every world before it is executed. It returns false when the world must not be executed
// (emit mode). In normal mode it journals the world's sequence number, so that the driver can find out which
// world a worker was executing when the Go runtime killed it.
func (rn *runner) gate(c *Case) bool {
	seq := rn.seq
	rn.seq++
	if rn.cfg.EmitOut == "" && rn.cfg.StopAt == 0 && evid.FastStopRequested() {
		rn.stop = true
	}
	if !rn.envRead {
		rn.envRead, rn.envNames = true, evid.EnvNames()
	}
	if c.World.Clock == nil && verifsim.ClockSites > 0 {
		if c.World.Clock = evid.DrawClock(rng.Mix(rn.cfg.Seed, uint64(seq)*37+uint64(rn.cfg.W)+1)); c.World.Clock != nil && rn.st != nil {
			rn.st.Fault("clock-jump")
		}
	}
	if c.World.Env == nil && len(rn.envNames) > 0 {
		if c.World.Env = evid.DrawEnv(rn.envNames, rng.Mix(rn.cfg.Seed, uint64(seq)*31+uint64(rn.cfg.W))); c.World.Env != nil && rn.st != nil {
			rn.st.Fault("environment-variable-set")
		}
	}
	if rn.cfg.EmitOut != "" {
		if seq == rn.cfg.EmitAt {
			cc := cloneCase(c)
			if cc.Prop == "C17" && cc.Sched == nil {
				cc.Sched = &Schedule{}
				cc.Policy = "serial (regenerated after a worker crash; the original schedule died with the worker)"
			}
			raw, _ := json.Marshal(cc)
			os.WriteFile(rn.cfg.EmitOut, raw, 0o644)
			rn.stop = true
		}
		return false
	}
	if rn.cfg.StopAt > 0 && seq >= rn.cfg.StopAt {
		rn.stop = true
		return false
	}
	if rn.journal == nil && rn.cfg.Journal != "" {
		rn.journal, _ = os.Create(rn.cfg.Journal)
	}
	if rn.journal != nil {
		var b [8]byte
		binary.LittleEndian.PutUint64(b[:], uint64(seq))
		rn.journal.WriteAt(b[:], 0)
	}
	return true
}

// pristineDue: one world in pristineEvery (small ones only) is judged against pristine-process references.
func (rn *runner) pristineDue(c *Case) bool {
	rn.worlds++
	if rn.worlds%rn.pristineEvery != 0 {
		return false
	}
	n := 0
	for _, t := range c.World.Tasks {
		n += len(t.Calls)
	}
	for _, m := range c.World.Models {
		if len(m.Bytes) > 16384 {
			return false
		}
	}
	return n <= 12
}

// remember keeps the last 3 small worlds as the prelude of a later recorded violation.
func (rn *runner) remember(c *Case) {
	sz := 0
	for _, m := range c.World.Models {
		sz += len(m.Bytes)
	}
	if sz > 16384 {
		return
	}
	rn.recent = append(rn.recent, c)
	if len(rn.recent) > 3 {
		rn.recent = rn.recent[1:]
	}
}

func (rn *runner) expired() bool {
	if rn.cfg.EmitOut != "" || rn.cfg.StopAt > 0 {
		return rn.stop
	}
	return rn.stop || time.Now().After(rn.cfg.Deadline)
}

func (rn *runner) note(c *Case, wr *worldRun) {
	st := rn.st
	for ti, t := range c.World.Tasks {
		for ci, call := range t.Calls {
			res := &wr.results[ti][ci]
			if res.Skipped {
				st.Probe("call_skipped")
				continue
			}
			st.Probe("call_" + call.Kind)
			st.Probe("outcome_" + res.Kind)
			if call.Fault != nil {
				if res.FaultHit {
					st.Fault("operator-" + call.Fault.Mode + "@" + call.Fault.When)
				} else {
					st.Probe("operator_fault_not_reached")
				}
			}
			if call.Kind == KBad {
				st.Fault("invalid-input")
				if res.Kind != "ok" {
					st.Probe("invalid_input_rejected")
				}
			}
			if call.Kind == KLoad {
				st.Fault("concurrent-load")
				if call.Note != "reload" {
					st.Fault("load-of-damaged-bytes")
				}
			}
			if call.Kind == KFeedback && res.Kind == "ok" {
				st.Probe("fed_back_call_ok")
			}
		}
	}
}

// report turns verdicts into known findings / violations. Only the first verdict of a world is reported
// (later ones are usually its consequences).
func (rn *runner) report(c *Case, vs []verdict) {
	if len(vs) == 0 {
		return
	}
	v := vs[0]
	if k := evid.MatchKnown(rn.cfg.Known, rn.cfg.Prop, v.sig); k != nil {
		rn.st.Known[v.sig]++
		return
	}
	rec := cloneCase(c)
	for _, p := range rn.recent {
		pc := cloneCase(p)
		pc.Prelude = nil
		rec.Prelude = append(rec.Prelude, *pc)
	}
	raw, _ := json.Marshal(rec)
	rn.st.Violations = append(rn.st.Violations, evid.Violation{Property: rn.cfg.Prop, Signature: v.sig, What: v.what, Case: raw, Seq: rn.seq - 1, W: rn.cfg.W})
	evid.FastStopSignal()
	if len(rn.st.Violations) >= rn.vcap {
		rn.stop = true
	}
}

func sampleOf(c *Case) interface{} {
	type sc struct {
		Kind  string   `json:"kind"`
		Model int      `json:"model"`
		Ref   int      `json:"ref"`
		Note  string   `json:"note,omitempty"`
		Fault *OpFault `json:"fault,omitempty"`
		In    []string `json:"inputs,omitempty"`
	}
	var models []string
	for _, m := range c.World.Models {
		models = append(models, fmt.Sprintf("%s (%d bytes)", m.Name, len(m.Bytes)))
	}
	var tasks [][]sc
	for _, t := range c.World.Tasks {
		var l []sc
		for _, call := range t.Calls {
			s := sc{Kind: call.Kind, Model: call.Model, Ref: call.Ref, Note: call.Note, Fault: call.Fault}
			for _, k := range sortedKeys(call.Inputs) {
				s.In = append(s.In, fmt.Sprintf("%s:%v%v", k, call.Inputs[k].DT, call.Inputs[k].Shape))
			}
			l = append(l, s)
		}
		tasks = append(tasks, l)
	}
	out := map[string]interface{}{"models": models, "tasks": tasks, "policy": c.Policy}
	if c.Order != nil {
		out["order"] = c.Order
	}
	if c.Sched != nil {
		n := len(c.Sched.Preempt)
		out["preemptions"] = n
		if n > 12 {
			n = 12
		}
		out["first_preemptions"] = c.Sched.Preempt[:n]
	}
	return out
}

// Worker02 runs the C02 share of worker cfg.W: the enumerated template x binding x pattern product
// first, then seeded random worlds until the deadline.
func Worker02(cfg Config) *evid.Stats {
	st := evid.NewStats()
	rn := &runner{cfg: cfg, st: st, rc: &refCache{m: map[uint64]*refResult{}}, vcap: 6, pristineEvery: 200}
	lib := newLibrary(cfg.RepoDir)
	if len(lib.samples) == 0 {
		st.Trouble = append(st.Trouble, "no sample models under "+cfg.RepoDir)
	}
	one := func(c *Case) {
		if !rn.gate(c) {
			return
		}
		wr := execute(c, nil, false, true)
		rc := rn.rc
		if rn.pristineDue(c) {
			c.PristineRef = true
			rc = &refCache{m: map[uint64]*refResult{}, pristine: true}
			st.Probe("worlds_judged_against_pristine_process_references")
		}
		vs := judge(c, wr, rc, true, false)
		st.Evals++
		rn.note(c, wr)
		if nontrivial02(c, wr) {
			st.NonTrivial++
			st.Hashes = append(st.Hashes, hashCase(c))
		}
		if st.Evals%211 == 1 {
			st.Sample(5, sampleOf(c))
		}
		if len(vs) > 0 {
			// attribute: re-execute with per-node traces to name the first diverging operator
			wr2 := execute(c, nil, true, true)
			vs2 := judge(c, wr2, rc, true, !c.PristineRef)
			if len(vs2) > 0 {
				vs = vs2
			}
			rn.report(c, vs)
		}
		if len(rn.rc.m) > 20000 {
			rn.rc.m = map[uint64]*refResult{}
		}
		rn.remember(c)
		rn.afterWorld(c)
	}
	if cfg.EmitOut == "" {
		rn.buildBattery(lib)
	}
	// 1. enumerated: every template x every (operand, binding) pair x the fixed reuse patterns
	idx := 0
	for ti := range lib.tpls {
		np := corpus.NPairs(lib.tpls, ti)
		for bi := -1; bi < np; bi++ {
			mine := idx%cfg.NW == cfg.W
			idx++
			if !mine || rn.stop {
				continue
			}
			r := rng.New(rng.Mix(cfg.Seed, 0x02e, uint64(ti), uint64(bi+1)))
			dm := fromEntry(corpus.DrawSingle(r, lib.tpls, ti, bi))
			for _, c := range patternWorlds(dm, r) {
				one(c)
				st.Probe("enumerated_template_binding_pattern")
			}
		}
	}
	for si, s := range lib.samples {
		if si%cfg.NW != cfg.W || rn.stop {
			continue
		}
		dm := drawnModel{spec: ModelSpec{Name: s.Name, Bytes: s.Bytes}, inputSets: s.InputSets, nNodes: 3}
		for _, c := range patternWorlds(dm, rng.New(rng.Mix(cfg.Seed, 0x5a, uint64(si)))) {
			one(c)
			st.Probe("enumerated_sample_pattern")
		}
	}
	// 2. seeded random worlds; run i is a pure function of (seed, i)
	for i := int64(cfg.W); !rn.expired(); i += int64(cfg.NW) {
		r := rng.New(rng.Mix(cfg.Seed, 0x02, uint64(i)))
		one(drawWorld02(r, lib))
	}
	return st
}

// shareProto: in one world out of six, model 0 is loaded twice from ONE parsed protobuf (gonnx.NewModel(mp) is
// exported, so two Models may wrap the same ModelProto): whatever one of them does must not show in the other.
func shareProto(r *rng.R, w *World, models *[]drawnModel) {
	if len(w.Models) == 0 || len(w.Models) >= 3 || !r.Chance(1, 6) {
		return
	}
	w.Models[0].ShareProto = true
	twin := w.Models[0]
	twin.Name += " (second Model on the same ModelProto)"
	w.Models = append(w.Models, twin)
	*models = append(*models, (*models)[0])
}
