package callsim

import (
	"encoding/json"
	"fmt"
	"hash/fnv"

	"verifsim/evid"
)

// Exec re-executes a recorded case and returns the first violation it exhibits.
func Exec(prop string, raw json.RawMessage) (*evid.Violation, error) {
	var c Case
	if err := json.Unmarshal(raw, &c); err != nil {
		return nil, err
	}
	if c.Battery != nil {
		// sentinel check: record what the sentinel returns now (this process is pristine), execute prelude and
		// world, and look again
		first := (&refCache{m: map[uint64]*refResult{}}).fresh(&ModelSpec{Bytes: c.Battery.Bytes}, c.Battery.Inputs, nil, false)
		for i := range c.Prelude {
			pc := cloneCase(&c.Prelude[i])
			if pc.Sched != nil {
				execute(pc, newReplay(pc.Sched), false, false)
			} else {
				execute(pc, nil, false, false)
			}
		}
		wc := cloneCase(&c)
		if wc.Sched != nil {
			execute(wc, newReplay(wc.Sched), false, false)
		} else {
			execute(wc, nil, false, false)
		}
		again := (&refCache{m: map[uint64]*refResult{}}).fresh(&ModelSpec{Bytes: c.Battery.Bytes}, c.Battery.Inputs, nil, false)
		same := first.Kind == again.Kind
		d := fmt.Sprintf("outcome %s, before %s", again.Kind, first.Kind)
		if same && first.Kind == "ok" {
			same, d = equalOuts(first.Out, again.Out)
		}
		if same {
			return nil, nil
		}
		return &evid.Violation{Property: prop, Signature: "process-state-changes-results:" + c.Battery.Op, What: "sentinel " + c.Battery.Name + ": " + d, Case: raw}, nil
	}
	for i := range c.Prelude {
		pc := cloneCase(&c.Prelude[i])
		if pc.Sched != nil {
			execute(pc, newReplay(pc.Sched), false, false)
		} else {
			execute(pc, nil, false, false)
		}
	}
	for i := 0; i < c.Warm; i++ {
		cc := cloneCase(&c)
		switch {
		case prop == "C17" && c.Sched != nil:
			execute(cc, newReplay(c.Sched), false, false)
		default:
			execute(cc, nil, false, false)
		}
	}
	rc := &refCache{m: map[uint64]*refResult{}, pristine: c.PristineRef}
	var vs []verdict
	switch prop {
	case "C02":
		wr := execute(&c, nil, true, true)
		vs = judge(&c, wr, rc, true, !c.PristineRef)
	case "C06":
		wr := execute(&c, nil, true, false)
		vs = judge06(&c, wr, rc)
	case "C17":
		if c.Sched == nil {
			return nil, fmt.Errorf("C17 case without a schedule")
		}
		wr := execute(&c, newReplay(c.Sched), true, false)
		vs = judge(&c, wr, rc, false, !c.PristineRef)
	default:
		return nil, fmt.Errorf("callsim does not serve %s", prop)
	}
	if len(vs) == 0 {
		return nil, nil
	}
	return &evid.Violation{Property: prop, Signature: vs[0].sig, What: vs[0].what, Case: raw}, nil
}

func cloneCase(c *Case) *Case {
	b, _ := json.Marshal(c)
	var n Case
	json.Unmarshal(b, &n)
	return &n
}

// dropCall removes call ci of task ti, re-pointing Ref fields; returns nil if another call depends on it.
func dropCall(c *Case, ti, ci int) *Case {
	n := cloneCase(c)
	calls := n.World.Tasks[ti].Calls
	for j := ci + 1; j < len(calls); j++ {
		if calls[j].Ref == ci || calls[j].RetryOf == ci+1 {
			return nil
		}
	}
	for j := ci + 1; j < len(calls); j++ {
		if calls[j].Ref > ci {
			calls[j].Ref--
		}
		if calls[j].RetryOf > ci+1 {
			calls[j].RetryOf--
		}
	}
	n.World.Tasks[ti].Calls = append(calls[:ci:ci], calls[ci+1:]...)
	if n.Order != nil {
		seen := 0
		for k, t := range n.Order {
			if t == ti {
				if seen == ci {
					n.Order = append(n.Order[:k:k], n.Order[k+1:]...)
					break
				}
				seen++
			}
		}
	}
	for si := range n.Sessions {
		s := &n.Sessions[si]
		if s.Task != ti {
			continue
		}
		for k := range s.Pieces {
			if s.Pieces[k] == ci {
				return nil // never drop a session's own pieces
			}
			if s.Pieces[k] > ci {
				s.Pieces[k]--
			}
		}
	}
	return n
}

// Minimise: delta debugging over the explicit record — empty whole tasks, drop calls, drop preemptions
// (halves first, then one by one) — keeping a step only while a fresh process shows the same signature.
func Minimise(prop string, v evid.Violation, still func(json.RawMessage) bool) (json.RawMessage, []string) {
	var c Case
	if err := json.Unmarshal(v.Case, &c); err != nil {
		return nil, nil
	}
	cur := &c
	var log []string
	budget := 250
	try := func(n *Case) bool {
		if n == nil || budget <= 0 {
			return false
		}
		budget--
		raw, _ := json.Marshal(n)
		return still(raw)
	}
	// 0. the prelude (worlds the worker executed before): drop it whole, else entry by entry
	if len(cur.Prelude) > 0 {
		n := cloneCase(cur)
		n.Prelude = nil
		if try(n) {
			log = append(log, fmt.Sprintf("dropped the prelude of %d earlier worlds (violation does not depend on process history)", len(cur.Prelude)))
			cur = n
		} else {
			for i := 0; i < len(cur.Prelude); {
				n := cloneCase(cur)
				n.Prelude = append(n.Prelude[:i:i], n.Prelude[i+1:]...)
				if try(n) {
					log = append(log, fmt.Sprintf("dropped prelude world %d", i))
					cur = n
				} else {
					i++
				}
			}
			log = append(log, fmt.Sprintf("violation needs %d earlier world(s) in the same process", len(cur.Prelude)))
		}
	}
	// 1. empty whole tasks
	for ti := range cur.World.Tasks {
		if len(cur.World.Tasks[ti].Calls) == 0 {
			continue
		}
		n := cloneCase(cur)
		n.World.Tasks[ti].Calls = nil
		if n.Order != nil {
			var o []int
			for _, t := range n.Order {
				if t != ti {
					o = append(o, t)
				}
			}
			n.Order = o
		}
		var ss []Session
		for _, s := range n.Sessions {
			if s.Task != ti {
				ss = append(ss, s)
			}
		}
		n.Sessions = ss
		if try(n) {
			log = append(log, fmt.Sprintf("emptied task %d", ti))
			cur = n
		}
	}
	// 2. drop calls, last first
	for ti := range cur.World.Tasks {
		for ci := len(cur.World.Tasks[ti].Calls) - 1; ci >= 0; ci-- {
			if ci >= len(cur.World.Tasks[ti].Calls) {
				continue
			}
			n := dropCall(cur, ti, ci)
			if try(n) {
				log = append(log, fmt.Sprintf("dropped call %d of task %d", ci, ti))
				cur = n
			}
		}
	}
	// 3. drop preemptions: chunks, then singles
	if cur.Sched != nil {
		for chunk := len(cur.Sched.Preempt) / 2; chunk >= 1; chunk /= 2 {
			for off := 0; off+chunk <= len(cur.Sched.Preempt); {
				n := cloneCase(cur)
				n.Sched.Preempt = append(n.Sched.Preempt[:off:off], n.Sched.Preempt[off+chunk:]...)
				if try(n) {
					log = append(log, fmt.Sprintf("dropped %d preemptions at %d", chunk, off))
					cur = n
				} else {
					off += chunk
				}
			}
		}
	}
	// 4. models nobody uses any more keep their index but lose their bytes
	used := map[int]bool{}
	for _, t := range cur.World.Tasks {
		for _, call := range t.Calls {
			used[call.Model] = true
		}
	}
	n := cloneCase(cur)
	changed := false
	for mi := range n.World.Models {
		if !used[mi] && len(n.World.Models[mi].Bytes) > 0 {
			n.World.Models[mi].Bytes = nil
			n.World.Models[mi].Name += " (unused, removed)"
			changed = true
		}
	}
	if changed && try(n) {
		log = append(log, "removed unused models")
		cur = n
	}
	if len(log) == 0 {
		return nil, nil
	}
	raw, _ := json.Marshal(cur)
	return raw, log
}

// CrashesAlone executes every Run-like call of a recorded case alone, each in its own brand-new process, and
// returns how many of them kill that process. A crash that also happens alone is independent of history and
// interleaving: C02/C06/C17 compare a call with itself executed alone, so such a crash is not theirs to report.
func CrashesAlone(raw json.RawMessage) (int, error) {
	var c Case
	if err := json.Unmarshal(raw, &c); err != nil {
		return 0, err
	}
	n := 0
	seen := map[uint64]bool{}
	for _, t := range c.World.Tasks {
		for i := range t.Calls {
			call := &t.Calls[i]
			if call.Inputs == nil || call.Kind == KLoad || call.Model < 0 || call.Model >= len(c.World.Models) {
				continue
			}
			h := fnv.New64a()
			h.Write(c.World.Models[call.Model].Bytes)
			hashInputs(h, call.Inputs)
			if seen[h.Sum64()] {
				continue
			}
			seen[h.Sum64()] = true
			func() {
				defer func() {
					if r := recover(); r != nil {
						n++
					}
				}()
				pristineFresh(&c.World.Models[call.Model], call.Inputs, call.Flavour, nil)
			}()
		}
	}
	return n, nil
}
