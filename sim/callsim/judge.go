package callsim

import (
	"fmt"
	"strings"

	"github.com/advancedclimatesystems/gonnx/onnx"
	"google.golang.org/protobuf/proto"

	"verifsim/evid"
	"verifsim/val"
)

type verdict struct {
	sig  string
	what string
	task int
	call int
}

// graphInfo is static information about a model file used to name roles in signatures.
type graphInfo struct {
	nodes    []*onnx.NodeProto
	consumer map[string]string
	mainOp   string
	nNodes   int
}

func infoOf(spec *ModelSpec) *graphInfo {
	gi := &graphInfo{consumer: map[string]string{}}
	mp := &onnx.ModelProto{}
	if err := proto.Unmarshal(spec.Bytes, mp); err != nil {
		gi.mainOp = "?"
		return gi
	}
	gi.nodes = mp.GetGraph().GetNode()
	gi.nNodes = len(gi.nodes)
	for _, n := range gi.nodes {
		for pos, in := range n.GetInput() {
			if in == "" {
				continue
			}
			if _, ok := gi.consumer[in]; !ok {
				gi.consumer[in] = fmt.Sprintf("%s.in%d", n.GetOpType(), pos)
			}
		}
	}
	gi.mainOp = "none"
	if gi.nNodes > 0 {
		gi.mainOp = gi.nodes[gi.nNodes-1].GetOpType()
	}
	for _, o := range mp.GetGraph().GetOutput() {
		if _, ok := gi.consumer[o.GetName()]; !ok {
			gi.consumer[o.GetName()] = "graph-output"
		}
	}
	return gi
}

func (gi *graphInfo) role(name string) string {
	if r, ok := gi.consumer[name]; ok {
		return r
	}
	return "unused"
}

// firstDivergence compares per-node traces of the simulated call and the reference.
func firstDivergence(a, b []nodeTrace) string {
	n := len(a)
	if len(b) < n {
		n = len(b)
	}
	for i := 0; i < n; i++ {
		if a[i].Out != b[i].Out {
			return a[i].Op
		}
	}
	if len(a) != len(b) {
		if n < len(a) {
			return a[n].Op
		}
		if n < len(b) {
			return b[n].Op
		}
	}
	return ""
}

// judge compares every call of a world run with the same call executed alone on a fresh Model.
// stateChecks: also demand that caller tensors, weights and the protobuf are untouched (C02/C06);
// for C17 only what each call returned is judged.
func judge(c *Case, wr *worldRun, rc *refCache, stateChecks bool, attrib bool) []verdict {
	if len(c.World.Env) > 0 {
		// the references are computed in the environment the world ran in ("what a freshly loaded Model returns" - here
		// and now), and are not shared with worlds that ran in another one
		defer evid.ApplyEnv(c.World.Env)()
		rc = &refCache{m: map[uint64]*refResult{}, pristine: rc.pristine}
	}
	var vs []verdict
	infos := make([]*graphInfo, len(c.World.Models))
	info := func(i int) *graphInfo {
		if infos[i] == nil {
			infos[i] = infoOf(&c.World.Models[i])
		}
		return infos[i]
	}
	for ti, t := range c.World.Tasks {
		for ci := range t.Calls {
			call := &t.Calls[ci]
			res := &wr.results[ti][ci]
			if res.Kind == "corrupted" {
				vs = append(vs, verdict{sig: "process-state-corrupts-tensor-construction", what: fmt.Sprintf("task %d call %d: %s (the tensor library's process-wide pools no longer hand out usable objects)", ti, ci, res.Err), task: ti, call: ci})
				continue
			}
			if res.Skipped || res.Kind == "" || hasBad(res.InBefore) {
				continue
			}
			add := func(sig, what string) {
				vs = append(vs, verdict{sig: sig, what: fmt.Sprintf("task %d call %d (%s on %s): %s", ti, ci, call.Kind, modelName(c, call), what), task: ti, call: ci})
			}
			switch call.Kind {
			case KLoad:
				ref := rc.freshIntro(&ModelSpec{Bytes: call.LoadBytes})
				loadKind := res.Kind
				if res.LoadW != nil {
					loadKind = "ok"
				}
				if (ref.LoadW != nil) != (res.LoadW != nil) {
					add("concurrent-load-outcome-differs", fmt.Sprintf("load gave %s, a quiet load gives %s", loadKind, ref.Kind))
					continue
				}
				if ok, d := equalOuts(ref.LoadW, res.LoadW); !ok {
					add("concurrent-load-weights-differ", "weights of a model loaded while others run differ from a quiet load: "+d)
					continue
				}
				if call.Inputs != nil && res.LoadW != nil {
					r2 := rc.fresh(&ModelSpec{Bytes: call.LoadBytes}, call.Inputs, nil, false)
					if r2.Kind != res.Kind {
						add("loaded-model-run-kind-differs", fmt.Sprintf("Run on the freshly loaded model: %s, alone: %s", res.Kind, r2.Kind))
					} else if ok, d := equalOuts(r2.Out, res.Out); !ok && res.Kind == "ok" {
						add("loaded-model-run-output-differs", d)
					}
				}
				continue
			case KIntrospect:
				ref := rc.freshIntro(&c.World.Models[call.Model])
				if ref.Kind != res.Kind || ref.Intro != res.Intro {
					add("introspection-differs", fmt.Sprintf("accessors answer %q (%s), on a fresh Model %q (%s)", clip(res.Intro, 120), res.Kind, clip(ref.Intro, 120), ref.Kind))
				}
				continue
			}
			gi := info(call.Model)
			// An injected operator fault is part of the call only if it actually fired: the seam (GetOperator) is an
			// implementation detail, and a tree that resolves operators once per Model instead of once per Run simply
			// never reaches it. Such a call is judged as the plain Run it was.
			fault := call.Fault
			if fault != nil && !res.FaultHit {
				fault = nil
			}
			// same/feedback/retry calls re-use tensor objects of earlier calls; their flavour is that of the object,
			// which the snapshot has already turned into a plain value: only calls that build their tensors say so
			ref := rc.freshF(&c.World.Models[call.Model], res.InBefore, res.flavour, fault, attrib)
			if ref.Kind != res.Kind {
				add(fmt.Sprintf("outcome-kind-differs:%s->%s:%s", ref.Kind, res.Kind, gi.mainOp),
					fmt.Sprintf("returned %s (%s); the same call alone on a fresh Model returns %s (%s)", res.Kind, clip(res.Err, 160), ref.Kind, clip(ref.Err, 160)))
			} else if res.Kind == "ok" {
				if ok, d := equalOuts(ref.Out, res.Out); !ok {
					where := gi.mainOp
					if attrib {
						if op := firstDivergence(res.Trace, ref.Trace); op != "" {
							where = op
						}
					}
					add("output-differs:"+where, "result differs from the same call alone on a fresh Model: "+d)
				}
			}
			if stateChecks && res.Kind == "ok" && res.OutLate != nil {
				// A tensor handed back by Run belongs to the caller; unless the caller itself passed it to a later call
				// that is allowed to... no call is allowed to modify it: later Runs must leave it alone.
				if ok, d := equalOuts(res.Out, res.OutLate); !ok {
					add("returned-output-changed-later:"+gi.mainOp, "an output tensor returned by this call no longer holds what it held when it was returned, after later calls ran: "+d)
				}
			}
			if stateChecks {
				for _, name := range sortedKeys(res.InBefore) {
					if !val.Equal(res.InBefore[name], res.InAfter[name]) {
						add("caller-tensor-changed:"+gi.role(name), fmt.Sprintf("input %q was %s before Run and %s after (%s)", name, res.InBefore[name], res.InAfter[name], val.Diff(res.InBefore[name], res.InAfter[name])))
						break
					}
				}
				if res.WChanged != "" {
					add("weight-changed:"+gi.role(res.WChanged), fmt.Sprintf("weight %q differs from its load-time value after this call", res.WChanged))
				}
				if res.PChanged {
					add("protobuf-changed:"+gi.mainOp, "the Model's protobuf differs from its load-time clone after this call")
				}
			}
		}
	}
	return vs
}

func modelName(c *Case, call *Call) string {
	if call.Kind == KLoad {
		return "(loaded bytes)"
	}
	if call.Model >= 0 && call.Model < len(c.World.Models) {
		return c.World.Models[call.Model].Name
	}
	return "?"
}

func clip(s string, n int) string {
	s = strings.ReplaceAll(s, "\n", " ")
	if len(s) > n {
		return s[:n] + "…"
	}
	return s
}

// hasBad: an input object was already inconsistent before the call (an earlier call damaged it and was
// reported there); no reference can be built from it.
func hasBad(m map[string]*val.V) bool {
	for _, v := range m {
		if v != nil && v.Bad != "" {
			return true
		}
	}
	return false
}
