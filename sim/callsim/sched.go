package callsim

import (
	"encoding/binary"
	"hash/fnv"
	"runtime"
	"sync/atomic"

	"verifsim/rng"
)

// Preemption is one recorded scheduling decision: when task Task reached its K-th yield point
// (K = -1: when it finished), the baton went to task Next. Site documents where (instrumenter site id).
// A schedule is nothing but a list of these, so a replay does not depend on the PRNG or the policy
// that produced it, and deleting one entry leaves the others meaningful.
type Preemption struct {
	Task int   `json:"task"`
	K    int64 `json:"k"`
	Site int   `json:"site,omitempty"`
	Next int   `json:"next"`
}

// Schedule: First is the task that starts; Preempt the decisions.
type Schedule struct {
	First   int          `json:"first"`
	Preempt []Preemption `json:"preempt"`
}

func (s *Schedule) Hash() uint64 {
	h := fnv.New64a()
	var b [8]byte
	w := func(x uint64) { binary.LittleEndian.PutUint64(b[:], x); h.Write(b[:]) }
	w(uint64(s.First))
	for _, p := range s.Preempt {
		w(uint64(p.Task))
		w(uint64(p.K))
		w(uint64(p.Next))
	}
	return h.Sum64()
}

// policy decides who runs. It sees only simulator state, never wall-clock or goroutine identity.
type policy interface {
	first(n int) int
	// atYield: task t (id) is at its k-th yield (global step number step); return the task to run next.
	atYield(s *sched, t int, k int64, step int64, site int) int
	// onFinish: task t finished; return the next task or -1 to use the default (lowest unfinished id).
	onFinish(s *sched, t int) int
}

type taskState struct {
	id       int
	wake     chan struct{}
	yields   int64
	finished bool
	fn       func()
	// mapCalls counts verifsim.Keys calls by this task (map-order seam)
	mapCalls uint64
	// hold > 0: the task is inside a section bracketed by verifsim.Hold (it holds a real lock, is inside
	// sync.Once.Do or in code that starts goroutines); its yields do not preempt.
	hold int32 // atomic: Hold(+1)/Hold(-1) may also arrive from goroutines the held function started
	goid uint64
}

// VisitedSites marks the yield sites (statements of the instrumented code) that were executed at least once by
// this process while a simulation was running: the reach of the workload, measured on the code under test.
var VisitedSites []bool

// goid returns the current goroutine's id (slow; only used when the library starts goroutines of its own).
func goid() uint64 {
	var buf [64]byte
	n := runtime.Stack(buf[:], false)
	// "goroutine 123 [running]:..."
	var id uint64
	for _, c := range buf[10:n] {
		if c < '0' || c > '9' {
			break
		}
		id = id*10 + uint64(c-'0')
	}
	return id
}

// holdHook is installed as verifsim.HoldHook. It may be entered by a goroutine that a held function of the
// running task started (that function waits for it, so s.cur is stable); the counter is therefore atomic.
func (s *sched) holdHook(d int) {
	if !s.active {
		return
	}
	t := s.tasks[s.cur]
	if atomic.AddInt32(&t.hold, int32(d)) < 0 {
		atomic.StoreInt32(&t.hold, 0)
	}
	if d > 0 {
		atomic.AddInt64(&s.holds, 1)
	}
}

type sched struct {
	tasks    []*taskState
	cur      int
	pol      policy
	rec      Schedule
	steps    int64
	maxSteps int64
	done     chan struct{}
	active   bool
	// overlap bookkeeping: which tasks are inside Model.Run right now (set by the executor)
	inRun []int // model index + 1, 0 = not in a Run
	// probes
	preemptInsideRun int64 // preemptions taken while another task was inside a Run of the same model
	overlaps         int64 // Runs entered while another task was parked inside a Run of the same model
	switches         int64
	aborted          bool
	foreign          bool  // the library starts goroutines of its own: check goroutine identity at yields
	holds            int64 // Hold(+1) calls seen (lock / once / atomic-function sections entered)
	foreignYields    int64 // switch points reached by goroutines that are not simulated callers (ignored)
	sitePairs        map[uint64]struct{}
	curNodeOp        []string // operator type each task is currently applying ("" = none)
	overlapOps       map[string]int64
}

func newSched(n int, pol policy, maxSteps int64) *sched {
	s := &sched{pol: pol, done: make(chan struct{}), maxSteps: maxSteps}
	s.inRun = make([]int, n)
	s.curNodeOp = make([]string, n)
	s.sitePairs = map[uint64]struct{}{}
	s.overlapOps = map[string]int64{}
	return s
}

func (s *sched) unfinished() []int {
	var o []int
	for _, t := range s.tasks {
		if !t.finished {
			o = append(o, t.id)
		}
	}
	return o
}

func (s *sched) lowestUnfinished() int {
	for _, t := range s.tasks {
		if !t.finished {
			return t.id
		}
	}
	return -1
}

// hook is installed as verifsim.Hook for the duration of a simulation. It is only ever entered by the
// task holding the baton.
func (s *sched) hook(site int) {
	if !s.active {
		return
	}
	if site >= 0 && site < len(VisitedSites) {
		VisitedSites[site] = true
	}
	t := s.tasks[s.cur]
	if atomic.LoadInt32(&t.hold) > 0 {
		// inside a critical section, sync.Once, or a function that starts goroutines (whose yields arrive here from
		// other goroutines while the task waits for them): no preemption, and nothing is counted, so that the
		// numbering of the task's yields does not depend on what those goroutines do
		return
	}
	k := t.yields
	t.yields++
	s.steps++
	if s.steps > s.maxSteps {
		// runaway guard: stop preempting, let everything run to completion serially
		s.aborted = true
		return
	}
	next := s.pol.atYield(s, t.id, k, s.steps, site)
	if next == t.id || next < 0 || next >= len(s.tasks) || s.tasks[next].finished {
		return
	}
	// A switch parks the calling goroutine. Code under test may run on goroutines that are not simulated callers - a
	// finalizer, a timer function, a janitor the library left running - and their yields arrive here too: such a
	// goroutine must never be parked in a caller's place (the caller would then never be woken). Identity is only
	// checked here, where it matters and switches are rare; it costs a stack header read.
	if goid() != t.goid {
		s.foreignYields++
		return
	}
	s.rec.Preempt = append(s.rec.Preempt, Preemption{Task: t.id, K: k, Site: site, Next: next})
	s.switches++
	if m := s.inRun[t.id]; m != 0 {
		for o, om := range s.inRun {
			if o != t.id && om == m {
				s.preemptInsideRun++
				if a, b := s.curNodeOp[t.id], s.curNodeOp[o]; a != "" && b != "" {
					s.overlapOps[a+"|"+b]++
				}
				break
			}
		}
	}
	s.cur = next
	s.tasks[next].wake <- struct{}{}
	<-t.wake
}

// run executes the task functions under the policy and returns when all have finished.
func (s *sched) run(fns []func()) {
	for i, f := range fns {
		s.tasks = append(s.tasks, &taskState{id: i, wake: make(chan struct{}), fn: f})
	}
	if len(fns) == 0 {
		return
	}
	for _, t := range s.tasks {
		t := t
		go func() {
			t.goid = goid()
			<-t.wake
			t.fn()
			atomic.StoreInt32(&t.hold, 0)
			t.finished = true
			next := s.pol.onFinish(s, t.id)
			if next < 0 || next >= len(s.tasks) || s.tasks[next].finished {
				next = s.lowestUnfinished()
			}
			if next < 0 {
				close(s.done)
				return
			}
			s.rec.Preempt = append(s.rec.Preempt, Preemption{Task: t.id, K: -1, Next: next})
			s.cur = next
			s.tasks[next].wake <- struct{}{}
		}()
	}
	first := s.pol.first(len(fns))
	if first < 0 || first >= len(fns) {
		first = 0
	}
	s.rec.First = first
	s.cur = first
	s.active = true
	s.tasks[first].wake <- struct{}{}
	<-s.done
	s.active = false
}

// ---------- policies ----------

// replayPolicy follows an explicit schedule.
type replayPolicy struct {
	first_ int
	at     map[[2]int64]int
	fin    map[int]int
}

func newReplay(sc *Schedule) *replayPolicy {
	p := &replayPolicy{first_: sc.First, at: map[[2]int64]int{}, fin: map[int]int{}}
	for _, e := range sc.Preempt {
		if e.K < 0 {
			p.fin[e.Task] = e.Next
		} else {
			p.at[[2]int64{int64(e.Task), e.K}] = e.Next
		}
	}
	return p
}

func (p *replayPolicy) first(n int) int { return p.first_ }
func (p *replayPolicy) atYield(s *sched, t int, k int64, step int64, site int) int {
	if n, ok := p.at[[2]int64{int64(t), k}]; ok {
		return n
	}
	return t
}
func (p *replayPolicy) onFinish(s *sched, t int) int {
	if n, ok := p.fin[t]; ok {
		return n
	}
	return -1
}

// serialPolicy: run to completion in a given task order.
type serialPolicy struct{ order []int }

func (p *serialPolicy) first(n int) int                                            { return p.order[0] }
func (p *serialPolicy) atYield(s *sched, t int, k int64, step int64, site int) int { return t }
func (p *serialPolicy) onFinish(s *sched, t int) int {
	for _, o := range p.order {
		if !s.tasks[o].finished {
			return o
		}
	}
	return -1
}

// parkPolicy P(δ): task A runs to its δ-th yield, then every other task runs to completion in order,
// then A resumes. For two tasks this is every single-preemption schedule as δ ranges over A's yields.
type parkPolicy struct {
	a     int
	delta int64
	order []int
	fired bool
}

func (p *parkPolicy) first(n int) int { return p.a }
func (p *parkPolicy) atYield(s *sched, t int, k int64, step int64, site int) int {
	if !p.fired && t == p.a && k == p.delta {
		p.fired = true
		for _, o := range p.order {
			if o != p.a && !s.tasks[o].finished {
				return o
			}
		}
	}
	return t
}
func (p *parkPolicy) onFinish(s *sched, t int) int {
	for _, o := range p.order {
		if o != p.a && !s.tasks[o].finished {
			return o
		}
	}
	if !s.tasks[p.a].finished {
		return p.a
	}
	return -1
}

// walkPolicy: at each yield switch to a uniformly chosen other task with probability 1/den.
type walkPolicy struct {
	r   *rng.R
	den int
}

func (p *walkPolicy) first(n int) int { return p.r.Intn(n) }
func (p *walkPolicy) atYield(s *sched, t int, k int64, step int64, site int) int {
	if p.r.Intn(p.den) != 0 {
		return t
	}
	u := s.unfinished()
	if len(u) <= 1 {
		return t
	}
	return u[p.r.Intn(len(u))]
}
func (p *walkPolicy) onFinish(s *sched, t int) int {
	u := s.unfinished()
	if len(u) == 0 {
		return -1
	}
	return u[p.r.Intn(len(u))]
}

// pctPolicy: PCT(d) — random distinct priorities, d priority-change points over the estimated length.
type pctPolicy struct {
	prio    []int
	change  map[int64]bool
	lowNext int
}

func newPCT(r *rng.R, n, d int, est int64) *pctPolicy {
	p := &pctPolicy{prio: make([]int, n), change: map[int64]bool{}}
	perm := r.Perm(n)
	for i, x := range perm {
		p.prio[i] = x + d + 1
	}
	if est < 1 {
		est = 1
	}
	for i := 0; i < d; i++ {
		p.change[int64(r.Intn(int(est)))+1] = true
	}
	p.lowNext = d
	return p
}

func (p *pctPolicy) best(s *sched) int {
	b, bp := -1, -1
	for _, t := range s.tasks {
		if !t.finished && p.prio[t.id] > bp {
			b, bp = t.id, p.prio[t.id]
		}
	}
	return b
}
func (p *pctPolicy) first(n int) int {
	b, bp := 0, -1
	for i, x := range p.prio {
		if x > bp {
			b, bp = i, x
		}
	}
	return b
}
func (p *pctPolicy) atYield(s *sched, t int, k int64, step int64, site int) int {
	if p.change[step] {
		p.prio[t] = p.lowNext
		p.lowNext--
	}
	return p.best(s)
}
func (p *pctPolicy) onFinish(s *sched, t int) int { return p.best(s) }

// lockstepPolicy: after task a has run delta yields alone, tasks alternate every w yields (round robin).
type lockstepPolicy struct {
	a     int
	delta int64
	w     int64
	since int64
	go_   bool
}

func (p *lockstepPolicy) first(n int) int { return p.a }
func (p *lockstepPolicy) atYield(s *sched, t int, k int64, step int64, site int) int {
	if !p.go_ {
		if t == p.a && k >= p.delta {
			p.go_ = true
			p.since = 0
		} else {
			return t
		}
	}
	p.since++
	if p.since < p.w {
		return t
	}
	p.since = 0
	u := s.unfinished()
	for i, x := range u {
		if x == t {
			return u[(i+1)%len(u)]
		}
	}
	return t
}
func (p *lockstepPolicy) onFinish(s *sched, t int) int {
	u := s.unfinished()
	if len(u) == 0 {
		return -1
	}
	for _, x := range u {
		if x > t {
			return x
		}
	}
	return u[0]
}
