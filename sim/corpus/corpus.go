// Package corpus generates the models the call simulator runs: single-operator
// templates for every registered operator with every operand bound in turn to a
// graph input, an initializer (raw / typed), an initializer that is also a graph
// input, a Constant node or a predecessor node's output; small DAGs; and the
// recurrent models used by the C06 sessions. Everything is a pure function of
// the PRNG handed in.
package corpus

import (
	"fmt"
	"math"

	"verifsim/mb"
	"verifsim/rng"
	"verifsim/val"
)

// Operand of a single-operator template.
type Operand struct {
	V         *val.V // nil: optional input absent (empty name)
	BatchAxis int    // axis that scales with the batch size, -1 if none
	Weight    bool   // true: naturally a weight (initializer); false: naturally a caller input
	// Fixed: value is structural (shape/axes/indices operand); rebinding it as a caller input is
	// allowed but its value must stay the same across input sets.
	Fixed bool
	// DynSpatial: when bound as a graph input, every axis from 2 on is declared dynamic as well (images and sequences
	// of varying size); the input sets then differ in those extents.
	DynSpatial bool
	// NoShape: when bound as a graph input, the input is declared with an element type but without a shape
	// (rank-polymorphic graphs); the input sets then differ in rank.
	NoShape bool
}

// OpCase is one operator application.
type OpCase struct {
	Tpl      string
	Op       string
	Attrs    []mb.Attr
	Operands []Operand
	Outs     []string
}

// Template draws an OpCase. rw decides structure, attributes and weights and must be consumed
// identically whatever b is; rd only produces data values; b is the batch extent.
type Template struct {
	Name      string
	Sensitive bool // families the property text singles out (conv bias, recurrent state, reductions, attribute-backed)
	Gen       func(rw, rd *rng.R, b int) OpCase
}

// ---------- value helpers ----------

func F32(shape []int, xs ...float32) *val.V {
	v := &val.V{DT: val.Float32, Shape: append([]int{}, shape...)}
	for _, x := range xs {
		v.Bits = append(v.Bits, uint64(math.Float32bits(x)))
	}
	return v
}

func I64(shape []int, xs ...int64) *val.V {
	v := &val.V{DT: val.Int64, Shape: append([]int{}, shape...)}
	for _, x := range xs {
		v.Bits = append(v.Bits, uint64(x))
	}
	return v
}

// RandF32 draws "tame" float32 values k/8 in [lo,hi].
func RandF32(r *rng.R, shape []int, lo, hi float64) *val.V {
	n := val.NElems(shape)
	v := &val.V{DT: val.Float32, Shape: append([]int{}, shape...), Bits: make([]uint64, n)}
	// half of the tensors hold "tame" multiples of 1/8 (sums stay exact, results are easy to read in reports), the
	// other half values with a full random mantissa, so that a changed order of floating-point additions
	// (blocked, parallel or re-associated kernels) changes result bits
	tame := r.Bool()
	switch r.Intn(24) {
	case 0: // all zero
		for i := range v.Bits {
			v.Bits[i] = 0
		}
		return v
	case 1: // all equal
		x := uint64(math.Float32bits(float32(lo + (hi-lo)*r.Float())))
		for i := range v.Bits {
			v.Bits[i] = x
		}
		return v
	case 2: // special values sprinkled in: -0, denormal, huge, tiny, +-Inf, NaN
		sp := []uint32{0x80000000, 0x00000001, 0x7f7fffff, 0xff7fffff, 0x00800000, 0x7f800000, 0xff800000, 0x7fc00000, 0x3f800000, 0xbf800000}
		for i := range v.Bits {
			if r.Chance(1, 3) {
				v.Bits[i] = uint64(sp[r.Intn(len(sp))])
			} else {
				v.Bits[i] = uint64(math.Float32bits(float32(lo + (hi-lo)*r.Float())))
			}
		}
		return v
	case 3: // other orders of magnitude
		scale := []float64{1e-30, 1e-12, 1e6, 1e18, 1e30}[r.Intn(5)]
		for i := range v.Bits {
			v.Bits[i] = uint64(math.Float32bits(float32((lo + (hi-lo)*r.Float()) * scale)))
		}
		return v
	}
	for i := range v.Bits {
		if tame {
			steps := int((hi - lo) * 8)
			x := lo + float64(r.Intn(steps+1))/8
			v.Bits[i] = uint64(math.Float32bits(float32(x)))
		} else {
			x := lo + (hi-lo)*float64(r.U64()>>40)/float64(1<<24)
			v.Bits[i] = uint64(math.Float32bits(float32(x)))
		}
	}
	return v
}

func RandF64(r *rng.R, shape []int, lo, hi float64) *val.V {
	n := val.NElems(shape)
	v := &val.V{DT: val.Float64, Shape: append([]int{}, shape...), Bits: make([]uint64, n)}
	for i := range v.Bits {
		steps := int((hi - lo) * 8)
		x := lo + float64(r.Intn(steps+1))/8
		v.Bits[i] = math.Float64bits(x)
	}
	return v
}

func RandInt(r *rng.R, dt val.DT, shape []int, lo, hi int) *val.V {
	n := val.NElems(shape)
	v := &val.V{DT: dt, Shape: append([]int{}, shape...), Bits: make([]uint64, n)}
	for i := range v.Bits {
		x := int64(r.Range(lo, hi))
		switch dt.Size() {
		case 1:
			v.Bits[i] = uint64(uint8(x))
		case 2:
			v.Bits[i] = uint64(uint16(x))
		case 4:
			v.Bits[i] = uint64(uint32(x))
		default:
			v.Bits[i] = uint64(x)
		}
	}
	return v
}

func RandBool(r *rng.R, shape []int) *val.V {
	n := val.NElems(shape)
	v := &val.V{DT: val.Bool, Shape: append([]int{}, shape...), Bits: make([]uint64, n)}
	for i := range v.Bits {
		v.Bits[i] = uint64(r.Intn(2))
	}
	return v
}

// RandOf draws a value of the given element type.
func RandOf(r *rng.R, dt val.DT, shape []int) *val.V {
	switch dt {
	case val.Float32:
		return RandF32(r, shape, -2, 2)
	case val.Float64:
		return RandF64(r, shape, -2, 2)
	case val.Bool:
		return RandBool(r, shape)
	case val.Uint8, val.Uint16, val.Uint32, val.Uint64:
		return RandInt(r, dt, shape, 0, 9)
	}
	return RandInt(r, dt, shape, -9, 9)
}

func data(v *val.V, axis int) Operand { return Operand{V: v, BatchAxis: axis} }
func weight(v *val.V) Operand         { return Operand{V: v, BatchAxis: -1, Weight: true} }
func fixed(v *val.V) Operand          { return Operand{V: v, BatchAxis: -1, Weight: true, Fixed: true} }
func absent() Operand                 { return Operand{BatchAxis: -1} }
func pick[T any](r *rng.R, xs ...T) T { return xs[r.Intn(len(xs))] }
func i64s(xs ...int) []int64 {
	o := make([]int64, len(xs))
	for i, x := range xs {
		o[i] = int64(x)
	}
	return o
}

// anyDT: element types for operators that only move data around.
func anyDT(r *rng.R) val.DT {
	return pick(r, val.Float32, val.Float32, val.Float32, val.Float64, val.Int64, val.Int32, val.Bool, val.Uint8, val.Int16)
}

// ---------- templates ----------

var unaryFloat = []string{"Abs", "Acos", "Acosh", "Asin", "Asinh", "Atan", "Atanh", "Cos", "Cosh", "Sin", "Sinh", "Tan", "Tanh", "Relu", "Sigmoid", "Softmax", "LogSoftmax"}

var binaryNum = []string{"Add", "Sub", "Mul", "Div", "PRelu"}
var binaryCmp = []string{"Equal", "Greater", "GreaterOrEqual", "Less", "LessOrEqual"}
var binaryBool = []string{"And", "Or", "Xor"}

// Templates returns every single-operator template.
func Templates() []Template {
	var ts []Template
	for _, op := range unaryFloat {
		op := op
		ts = append(ts, Template{Name: "unary/" + op, Gen: func(rw, rd *rng.R, b int) OpCase {
			dt := pick(rw, val.Float32, val.Float32, val.Float64)
			shape := pick(rw, []int{b, 3}, []int{b, 3}, []int{b, 2, 3}, []int{b}, []int{b, 2, 1, 3}, []int{b, 67}, []int{b, 1})
			if rw.Chance(1, 80) {
				shape = []int{b, 33000} // beyond the element counts at which loops get chunked or parallelised
			}
			if (op == "Softmax" || op == "LogSoftmax") && len(shape) == 1 {
				shape = []int{b, 3}
			}
			lo, hi := -1.0, 1.0
			if op == "Acosh" {
				lo, hi = 1, 3
			}
			var x *val.V
			if dt == val.Float64 {
				x = RandF64(rd, shape, lo, hi)
			} else {
				x = RandF32(rd, shape, lo, hi)
			}
			oc := OpCase{Op: op, Operands: []Operand{data(x, 0)}, Outs: []string{"y"}}
			if (op == "Softmax" || op == "LogSoftmax") && rw.Bool() {
				oc.Attrs = []mb.Attr{mb.AI("axis", int64(pick(rw, -1, 1)))}
			}
			return oc
		}})
	}
	for _, op := range []string{"Abs", "Relu", "Sigmoid", "Tanh", "Softmax", "Cast", "Shape", "Not"} {
		op := op
		ts = append(ts, Template{Name: "rank-polymorphic/" + op, Sensitive: true, Gen: func(rw, rd *rng.R, b int) OpCase {
			// the same graph is run on inputs of different rank: the input is declared without a shape
			shape := pick(rd, []int{b, 3}, []int{b, 2, 3}, []int{5}, []int{2, 2, 2, 2}, []int{b, 1})
			var x *val.V
			var attrs []mb.Attr
			switch op {
			case "Not":
				x = RandBool(rd, shape)
			case "Cast":
				x = RandF32(rd, shape, -2, 2)
				attrs = []mb.Attr{mb.AI("to", int64(val.Int32))}
			default:
				x = RandF32(rd, shape, -2, 2)
			}
			return OpCase{Op: op, Attrs: attrs, Operands: []Operand{{V: x, BatchAxis: -1, NoShape: true}}, Outs: []string{"y"}}
		}})
	}
	ts = append(ts, Template{Name: "unary/Not", Gen: func(rw, rd *rng.R, b int) OpCase {
		return OpCase{Op: "Not", Operands: []Operand{data(RandBool(rd, []int{b, 3}), 0)}, Outs: []string{"y"}}
	}})
	binary := func(op string, dts []val.DT) Template {
		return Template{Name: "binary/" + op, Gen: func(rw, rd *rng.R, b int) OpCase {
			dt := dts[rw.Intn(len(dts))]
			wshape := pick(rw, []int{3}, []int{1, 3}, []int{2, 3}, []int{1}, []int{2, 1}, []int{1, 1, 3}, []int{1, 2, 3})
			x := RandOf(rd, dt, []int{b, 2, 3})
			xAxis := 0
			if rw.Chance(1, 80) {
				wshape = []int{16500}
				x = RandOf(rd, dt, []int{b, 2, 16500})
			} else if rw.Chance(1, 5) {
				// no broadcasting needed at all: the data operand has exactly the weight's shape (and no batch axis), so
				// the broadcast helpers hand their arguments back unchanged
				wshape = pick(rw, []int{3}, []int{2, 3}, []int{1, 3})
				x = RandOf(rd, dt, wshape)
				xAxis = -1
			}
			y := RandOf(rw, dt, wshape)
			if op == "Div" && dt != val.Float32 && dt != val.Float64 {
				for i := range y.Bits {
					if y.Bits[i] == 0 {
						y.Bits[i] = 1
					}
				}
			}
			ops := []Operand{data(x, xAxis), weight(y)}
			if op != "PRelu" && rw.Chance(1, 4) {
				// weight first, data second (bidirectional broadcast)
				ops = []Operand{weight(y), data(x, xAxis)}
			}
			return OpCase{Op: op, Operands: ops, Outs: []string{"y"}}
		}}
	}
	for _, op := range binaryNum {
		ts = append(ts, binary(op, []val.DT{val.Float32, val.Float32, val.Float64, val.Int32, val.Int64, val.Uint32, val.Uint64}))
	}
	for _, op := range binaryCmp {
		ts = append(ts, binary(op, []val.DT{val.Float32, val.Int64, val.Int32}))
	}
	for _, op := range binaryBool {
		ts = append(ts, binary(op, []val.DT{val.Bool}))
	}
	reduce := func(op string) Template {
		return Template{Name: "reduce/" + op, Sensitive: true, Gen: func(rw, rd *rng.R, b int) OpCase {
			dt := pick(rw, val.Float32, val.Float32, val.Int64, val.Int32, val.Float64, val.Uint32, val.Uint64)
			x := RandOf(rd, dt, []int{b, 3, 2})
			var attrs []mb.Attr
			if op == "ArgMax" {
				attrs = append(attrs, mb.AI("axis", int64(pick(rw, 0, 1, 2, -1))))
				if rw.Chance(2, 3) {
					attrs = append(attrs, mb.AI("keepdims", int64(rw.Intn(2))))
				}
				if rw.Chance(1, 4) {
					attrs = append(attrs, mb.AI("select_last_index", 0))
				}
			} else {
				attrs = append(attrs, mb.AInts("axes", pick(rw, []int64{1}, []int64{2}, []int64{1, 2}, []int64{-1}, []int64{0})...))
				if rw.Chance(2, 3) {
					attrs = append(attrs, mb.AI("keepdims", int64(rw.Intn(2))))
				}
			}
			return OpCase{Op: op, Attrs: attrs, Operands: []Operand{data(x, 0)}, Outs: []string{"y"}}
		}}
	}
	ts = append(ts, reduce("ArgMax"), reduce("ReduceMax"), reduce("ReduceMin"))
	ts = append(ts, Template{Name: "Cast", Gen: func(rw, rd *rng.R, b int) OpCase {
		from := pick(rw, val.Float32, val.Int64, val.Int32, val.Float64, val.Float32, val.Int16, val.Uint16, val.Uint32, val.Uint64, val.Int8, val.Uint8)
		to := pick(rw, val.Float32, val.Int64, val.Int32, val.Float64, val.Int16, val.Uint32, val.Uint16, val.Uint64, val.Int8, val.Bool)
		return OpCase{Op: "Cast", Attrs: []mb.Attr{mb.AI("to", int64(to))}, Operands: []Operand{data(RandOf(rd, from, []int{b, 3}), 0)}, Outs: []string{"y"}}
	}})
	ts = append(ts, Template{Name: "Concat", Sensitive: true, Gen: func(rw, rd *rng.R, b int) OpCase {
		dt := anyDT(rw)
		n := rw.Range(1, 3)
		axis := pick(rw, 1, -1, 2)
		ops := []Operand{data(RandOf(rd, dt, []int{b, 2, 3}), 0)}
		for i := 1; i < n; i++ {
			if rw.Bool() {
				ops = append(ops, data(RandOf(rd, dt, []int{b, 2, 3}), 0))
			} else {
				// a weight can only be concatenated when the batch is fixed; use axis on which it may differ
				ops = append(ops, data(RandOf(rd, dt, []int{b, 2, 3}), 0))
			}
		}
		return OpCase{Op: "Concat", Attrs: []mb.Attr{mb.AI("axis", int64(axis))}, Operands: ops, Outs: []string{"y"}}
	}})
	ts = append(ts, Template{Name: "Constant", Sensitive: true, Gen: func(rw, rd *rng.R, b int) OpCase {
		var a mb.Attr
		switch rw.Intn(5) {
		case 0:
			a = mb.AT("value", &mb.Init{V: RandF32(rw, []int{2, 2}, -2, 2), Raw: rw.Bool()})
		case 1:
			a = mb.AF("value_float", 1.5)
		case 2:
			a = mb.AFloats("value_floats", 1, -2, 3.5)
		case 3:
			a = mb.AI("value_int", 7)
		default:
			a = mb.AInts("value_ints", 4, -5, 6)
		}
		return OpCase{Op: "Constant", Attrs: []mb.Attr{a}, Outs: []string{"y"}}
	}})
	ts = append(ts, Template{Name: "ConstantOfShape", Gen: func(rw, rd *rng.R, b int) OpCase {
		var attrs []mb.Attr
		if rw.Bool() {
			attrs = []mb.Attr{mb.AT("value", &mb.Init{V: RandOf(rw, pick(rw, val.Float32, val.Int64, val.Int32), []int{1}), Raw: rw.Bool()})}
		}
		return OpCase{Op: "ConstantOfShape", Attrs: attrs, Operands: []Operand{fixed(I64([]int{2}, 2, 3))}, Outs: []string{"y"}}
	}})
	ts = append(ts, Template{Name: "Conv", Sensitive: true, Gen: func(rw, rd *rng.R, b int) OpCase {
		twoD := rw.Bool()
		cin, cout := rw.Range(1, 2), rw.Range(1, 3)
		var x, k *val.V
		var attrs []mb.Attr
		// attributes are drawn independently so that combinations occur (auto_pad with strides, strides with
		// dilations ...): the paddings auto_pad derives inside Apply depend on strides, kernel and input shape
		nsp := 1
		if twoD {
			nsp = 2
			x = RandF32(rd, []int{b, cin, 5, 4}, -2, 2)
			k = RandF32(rw, []int{cout, cin, 2, 2}, -1, 1)
		} else {
			x = RandF32(rd, []int{b, cin, 6}, -2, 2)
			k = RandF32(rw, []int{cout, cin, 3}, -1, 1)
		}
		if rw.Chance(1, 25) {
			// an image-sized input (>= 2^16 elements): the sizes at which padding, im2col or tiling take other paths.
			// One output channel and a 3x3 kernel keep the pure-Go convolution affordable (about 0.1 s per Run).
			twoD, nsp, cin, cout = true, 2, 4, 1
			x = RandF32(rd, []int{b, cin, 128, 128}, -2, 2)
			k = RandF32(rw, []int{cout, cin, 3, 3}, -1, 1)
		}
		rep := func(v int64) []int64 {
			o := make([]int64, nsp)
			for i := range o {
				o[i] = v
			}
			return o
		}
		autoPad := rw.Chance(2, 5)
		if autoPad {
			attrs = append(attrs, mb.AS("auto_pad", pick(rw, "SAME_UPPER", "SAME_LOWER", "VALID")))
		} else if rw.Chance(1, 3) {
			attrs = append(attrs, mb.AInts("pads", append(rep(1), rep(1)...)...))
		}
		if rw.Chance(1, 2) {
			attrs = append(attrs, mb.AInts("strides", rep(int64(rw.Range(1, 3)))...))
		}
		if rw.Chance(1, 4) {
			attrs = append(attrs, mb.AInts("dilations", rep(int64(rw.Range(1, 2)))...))
		}
		if rw.Chance(1, 5) {
			attrs = append(attrs, mb.AI("group", 1))
		}
		if rw.Chance(1, 4) {
			var ks []int64
			for _, d := range k.Shape[2:] {
				ks = append(ks, int64(d))
			}
			attrs = append(attrs, mb.AInts("kernel_shape", ks...))
		}
		xo := data(x, 0)
		if x.Shape[2] <= 8 && rw.Chance(1, 5) {
			// dynamic spatial axes: this input set is as large as the kernel, or a little larger (the extent at which
			// "the kernel covers the whole input" paths start and stop applying)
			sh := append([]int{}, x.Shape...)
			for i := 2; i < len(sh); i++ {
				sh[i] = k.Shape[i] + []int{0, 0, 1, 3}[rd.Intn(4)]
			}
			xo = data(RandF32(rd, sh, -2, 2), 0)
			xo.DynSpatial = true
		}
		ops := []Operand{xo, weight(k)}
		if rw.Chance(3, 4) {
			ops = append(ops, weight(RandF32(rw, []int{cout}, -1, 1)))
		}
		return OpCase{Op: "Conv", Attrs: attrs, Operands: ops, Outs: []string{"y"}}
	}})
	ts = append(ts, Template{Name: "Expand", Sensitive: true, Gen: func(rw, rd *rng.R, b int) OpCase {
		switch rw.Intn(3) {
		case 0: // no-op expand: output aliases the input
			return OpCase{Op: "Expand", Operands: []Operand{weight(RandF32(rw, []int{2, 3}, -2, 2)), fixed(I64([]int{2}, 2, 3))}, Outs: []string{"y"}}
		case 1:
			return OpCase{Op: "Expand", Operands: []Operand{weight(RandF32(rw, []int{1, 3}, -2, 2)), fixed(I64([]int{2}, 2, 3))}, Outs: []string{"y"}}
		}
		return OpCase{Op: "Expand", Operands: []Operand{weight(RandF32(rw, []int{3}, -2, 2)), fixed(I64([]int{3}, 2, 2, 3))}, Outs: []string{"y"}}
	}})
	ts = append(ts, Template{Name: "Flatten", Gen: func(rw, rd *rng.R, b int) OpCase {
		dt := anyDT(rw)
		var attrs []mb.Attr
		if rw.Bool() {
			attrs = []mb.Attr{mb.AI("axis", int64(pick(rw, 0, 1, 2, -1)))}
		}
		return OpCase{Op: "Flatten", Attrs: attrs, Operands: []Operand{data(RandOf(rd, dt, []int{b, 2, 3}), 0)}, Outs: []string{"y"}}
	}})
	ts = append(ts, Template{Name: "Gather", Sensitive: true, Gen: func(rw, rd *rng.R, b int) OpCase {
		dt := anyDT(rw)
		axis := pick(rw, 1, 2, -1)
		idxShape := pick(rw, []int{2}, []int{1}, []int{2, 2})
		lim := 2
		if axis == 1 {
			lim = 3
		}
		idx := RandInt(rw, pick(rw, val.Int64, val.Int32), idxShape, -lim, lim-1)
		return OpCase{Op: "Gather", Attrs: []mb.Attr{mb.AI("axis", int64(axis))}, Operands: []Operand{data(RandOf(rd, dt, []int{b, 3, 2}), 0), fixed(idx)}, Outs: []string{"y"}}
	}})
	ts = append(ts, Template{Name: "Gather/weight-table", Sensitive: true, Gen: func(rw, rd *rng.R, b int) OpCase {
		// embedding lookup: the table is a weight, the indices are the caller's
		idx := RandInt(rd, val.Int64, []int{b, 2}, -4, 3)
		return OpCase{Op: "Gather", Operands: []Operand{weight(RandF32(rw, []int{4, 3}, -2, 2)), data(idx, 0)}, Outs: []string{"y"}}
	}})
	ts = append(ts, Template{Name: "Gemm", Sensitive: true, Gen: func(rw, rd *rng.R, b int) OpCase {
		transA, transB := rw.Chance(1, 3), rw.Bool()
		dt := pick(rw, val.Float32, val.Float32, val.Float32, val.Float32, val.Float32, val.Float64)
		// the inner dimension occasionally crosses the thresholds at which implementations switch to blocked,
		// vectorised or parallel kernels (64, 128, 512)
		k, n := pick(rw, 3, 3, 4, 3, 4, 3, 70, 130, 520), pick(rw, 2, 2, 5)
		var attrs []mb.Attr
		ashape, aaxis := []int{b, k}, 0
		if transA {
			ashape, aaxis = []int{k, b}, 1
			attrs = append(attrs, mb.AI("transA", 1))
		}
		bshape := []int{k, n}
		if transB {
			bshape = []int{n, k}
			attrs = append(attrs, mb.AI("transB", 1))
		}
		if rw.Bool() {
			attrs = append(attrs, mb.AF("alpha", pick(rw, float32(0), 1, -1, 0.25, 1.5, 2)))
		}
		if rw.Bool() {
			attrs = append(attrs, mb.AF("beta", pick(rw, float32(0), 1, -1, 0.5, 2, 3)))
		}
		ops := []Operand{data(RandOf(rd, dt, ashape), aaxis), weight(RandOf(rw, dt, bshape))}
		if rw.Chance(3, 4) {
			ops = append(ops, weight(RandOf(rw, dt, pick(rw, []int{n}, []int{1, n}, []int{1}, []int{b, n}))))
		}
		return OpCase{Op: "Gemm", Attrs: attrs, Operands: ops, Outs: []string{"y"}}
	}})
	ts = append(ts, Template{Name: "MatMul", Sensitive: true, Gen: func(rw, rd *rng.R, b int) OpCase {
		switch rw.Intn(9) {
		case 7:
			// vector x square weight matrix: the data operand has no batch axis at all
			return OpCase{Op: "MatMul", Operands: []Operand{{V: RandF32(rd, []int{3}, -2, 2), BatchAxis: -1}, weight(RandF32(rw, []int{3, 3}, -1, 1))}, Outs: []string{"y"}}
		case 8:
			// square weight matrix x vector
			return OpCase{Op: "MatMul", Operands: []Operand{weight(RandF32(rw, []int{3, 3}, -1, 1)), {V: RandF32(rd, []int{3}, -2, 2), BatchAxis: -1}}, Outs: []string{"y"}}
		case 4:
			// big enough for gonum's blocked / parallel GEMM path
			return OpCase{Op: "MatMul", Operands: []Operand{data(RandF32(rd, []int{b + 63, 70}, -1, 1), 0), weight(RandF32(rw, []int{70, 66}, -1, 1))}, Outs: []string{"y"}}
		case 5:
			dt := pick(rw, val.Float64, val.Float64, val.Float64, val.Int32)
			return OpCase{Op: "MatMul", Operands: []Operand{data(RandOf(rd, dt, []int{b, 3}), 0), weight(RandOf(rw, dt, []int{3, 2}))}, Outs: []string{"y"}}
		case 6:
			// batched weight broadcast against batched data
			return OpCase{Op: "MatMul", Operands: []Operand{data(RandF32(rd, []int{b, 2, 3}, -2, 2), 0), weight(RandF32(rw, []int{1, 3, 2}, -1, 1))}, Outs: []string{"y"}}
		case 0:
			return OpCase{Op: "MatMul", Operands: []Operand{data(RandF32(rd, []int{b, 3}, -2, 2), 0), weight(RandF32(rw, []int{3, 2}, -1, 1))}, Outs: []string{"y"}}
		case 1:
			return OpCase{Op: "MatMul", Operands: []Operand{data(RandF32(rd, []int{b, 2, 3}, -2, 2), 0), weight(RandF32(rw, []int{3, 2}, -1, 1))}, Outs: []string{"y"}}
		case 2:
			return OpCase{Op: "MatMul", Operands: []Operand{data(RandF32(rd, []int{b, 2, 3}, -2, 2), 0), weight(RandF32(rw, []int{3}, -1, 1))}, Outs: []string{"y"}}
		}
		return OpCase{Op: "MatMul", Operands: []Operand{weight(RandF32(rw, []int{3}, -1, 1)), data(RandF32(rd, []int{b, 3, 2}, -2, 2), 0)}, Outs: []string{"y"}}
	}})
	ts = append(ts, Template{Name: "LinearRegressor", Sensitive: true, Gen: func(rw, rd *rng.R, b int) OpCase {
		targets := rw.Range(1, 2)
		coef := make([]float32, 3*targets)
		for i := range coef {
			coef[i] = float32(rw.Range(-8, 8)) / 4
		}
		inter := make([]float32, targets)
		for i := range inter {
			inter[i] = float32(rw.Range(-8, 8)) / 4
		}
		attrs := []mb.Attr{mb.AFloats("coefficients", coef...), mb.AFloats("intercepts", inter...), mb.AI("targets", int64(targets))}
		return OpCase{Op: "LinearRegressor", Attrs: attrs, Operands: []Operand{data(RandF32(rd, []int{b, 3}, -2, 2), 0)}, Outs: []string{"y"}}
	}})
	ts = append(ts, Template{Name: "Scaler", Sensitive: true, Gen: func(rw, rd *rng.R, b int) OpCase {
		n := pick(rw, 3, 1)
		off := make([]float32, n)
		sc := make([]float32, n)
		for i := range off {
			off[i] = float32(rw.Range(-8, 8)) / 4
			sc[i] = float32(rw.Range(1, 8)) / 4
		}
		x := data(RandF32(rd, []int{b, 3}, -2, 2), 0)
		if rw.Chance(1, 4) {
			// rank-1 input of exactly the attribute's length: nothing to broadcast
			x = Operand{V: RandF32(rd, []int{n}, -2, 2), BatchAxis: -1}
		}
		return OpCase{Op: "Scaler", Attrs: []mb.Attr{mb.AFloats("offset", off...), mb.AFloats("scale", sc...)}, Operands: []Operand{x}, Outs: []string{"y"}}
	}})
	ts = append(ts, Template{Name: "Reshape", Sensitive: true, Gen: func(rw, rd *rng.R, b int) OpCase {
		dt := anyDT(rw)
		shp := pick(rw, []int64{-1, 6}, []int64{0, 3, 2}, []int64{0, -1}, []int64{-1, 2, 3})
		return OpCase{Op: "Reshape", Operands: []Operand{data(RandOf(rd, dt, []int{b, 2, 3}), 0), fixed(I64([]int{len(shp)}, shp...))}, Outs: []string{"y"}}
	}})
	ts = append(ts, Template{Name: "Reshape/batch-bound", Sensitive: true, Gen: func(rw, rd *rng.R, b int) OpCase {
		dt := anyDT(rw)
		// a target shape that only fits batch 2: other batch sizes fail inside Apply
		return OpCase{Op: "Reshape", Operands: []Operand{data(RandOf(rd, dt, []int{b, 2, 3}), 0), fixed(I64([]int{2}, 4, 3))}, Outs: []string{"y"}}
	}})
	ts = append(ts, Template{Name: "Shape", Gen: func(rw, rd *rng.R, b int) OpCase {
		dt := anyDT(rw)
		return OpCase{Op: "Shape", Operands: []Operand{data(RandOf(rd, dt, []int{b, 2, 3}), 0)}, Outs: []string{"y"}}
	}})
	ts = append(ts, Template{Name: "Slice", Sensitive: true, Gen: func(rw, rd *rng.R, b int) OpCase {
		dt := anyDT(rw)
		x := data(RandOf(rd, dt, []int{b, 4, 3}), 0)
		idt := pick(rw, val.Int64, val.Int32)
		mk := func(xs ...int) Operand { return fixed(RandIntFixed(idt, xs...)) }
		switch rw.Intn(4) {
		case 0:
			return OpCase{Op: "Slice", Operands: []Operand{x, mk(1), mk(3), mk(1)}, Outs: []string{"y"}}
		case 1:
			return OpCase{Op: "Slice", Operands: []Operand{x, mk(0, 1), mk(4, 3), mk(1, 2), mk(2, 1)}, Outs: []string{"y"}}
		case 2:
			return OpCase{Op: "Slice", Operands: []Operand{x, mk(1), mk(4), mk(-2)}, Outs: []string{"y"}}
		}
		if rw.Bool() {
			// "to the end" written the way exporters do (INT_MAX / INT64_MAX), a negative step, an end before the start
			big := math.MaxInt32
			if idt == val.Int64 && rw.Bool() {
				big = math.MaxInt64
			}
			switch rw.Intn(3) {
			case 0:
				return OpCase{Op: "Slice", Operands: []Operand{x, mk(1), mk(big), mk(1)}, Outs: []string{"y"}}
			case 1:
				return OpCase{Op: "Slice", Operands: []Operand{x, mk(3), mk(-5), mk(1), mk(-1)}, Outs: []string{"y"}}
			}
			return OpCase{Op: "Slice", Operands: []Operand{x, mk(-3, 0), mk(big, big), mk(1, 2), mk(2, 1)}, Outs: []string{"y"}}
		}
		return OpCase{Op: "Slice", Operands: []Operand{x, mk(0, 0, 1), mk(1, 2, 3)}, Outs: []string{"y"}}
	}})
	ts = append(ts, Template{Name: "Squeeze", Sensitive: true, Gen: func(rw, rd *rng.R, b int) OpCase {
		dt := anyDT(rw)
		x := data(RandOf(rd, dt, []int{b, 1, 3, 1}), 0)
		if rw.Chance(1, 4) {
			// axes input absent: every extent-1 axis is squeezed (also the batch axis when the batch is 1)
			return OpCase{Op: "Squeeze", Operands: []Operand{x}, Outs: []string{"y"}}
		}
		if rw.Bool() {
			return OpCase{Op: "Squeeze", Operands: []Operand{x, fixed(I64([]int{1}, int64(pick(rw, 1, 3, -1))))}, Outs: []string{"y"}}
		}
		return OpCase{Op: "Squeeze", Operands: []Operand{x, fixed(I64([]int{2}, 1, 3))}, Outs: []string{"y"}}
	}})
	ts = append(ts, Template{Name: "Unsqueeze", Sensitive: true, Gen: func(rw, rd *rng.R, b int) OpCase {
		dt := anyDT(rw)
		ax := pick(rw, []int64{1}, []int64{0, 3}, []int64{-1}, []int64{2, 1})
		return OpCase{Op: "Unsqueeze", Operands: []Operand{data(RandOf(rd, dt, []int{b, 3}), 0), fixed(I64([]int{len(ax)}, ax...))}, Outs: []string{"y"}}
	}})
	ts = append(ts, Template{Name: "Transpose", Gen: func(rw, rd *rng.R, b int) OpCase {
		dt := anyDT(rw)
		perm := pick(rw, []int64{0, 2, 1}, []int64{2, 1, 0}, []int64{1, 0, 2}, []int64{0, 1, 2}, []int64{1, 2, 0})
		return OpCase{Op: "Transpose", Attrs: []mb.Attr{mb.AInts("perm", perm...)}, Operands: []Operand{data(RandOf(rd, dt, []int{b, 2, 3}), 0)}, Outs: []string{"y"}}
	}})
	ts = append(ts, Template{Name: "Transpose/weight", Sensitive: true, Gen: func(rw, rd *rng.R, b int) OpCase {
		return OpCase{Op: "Transpose", Attrs: []mb.Attr{mb.AInts("perm", 1, 0)}, Operands: []Operand{weight(RandF32(rw, []int{2, 3}, -2, 2))}, Outs: []string{"y"}}
	}})
	for _, kind := range []string{"RNN", "GRU", "LSTM"} {
		kind := kind
		ts = append(ts, Template{Name: "recurrent/" + kind, Sensitive: true, Gen: func(rw, rd *rng.R, b int) OpCase {
			cfg := DrawRecurrent(rw, kind)
			seq := rw.Range(1, 4)
			return cfg.OpCase(rw, rd, seq, b, true)
		}})
	}
	return ts
}

// RandIntFixed builds a rank-1 integer tensor from literal values.
func RandIntFixed(dt val.DT, xs ...int) *val.V {
	v := &val.V{DT: dt, Shape: []int{len(xs)}}
	for _, x := range xs {
		if dt == val.Int32 {
			v.Bits = append(v.Bits, uint64(uint32(int32(x))))
		} else {
			v.Bits = append(v.Bits, uint64(int64(x)))
		}
	}
	return v
}

// ---------- recurrent configurations (also used by the C06 sessions) ----------

// Recurrent describes one RNN/GRU/LSTM node configuration.
type Recurrent struct {
	Kind        string   `json:"kind"`
	Input       int      `json:"input"`
	Hidden      int      `json:"hidden"`
	HasB        bool     `json:"has_b"`
	HasH0       bool     `json:"has_h0"`
	HasC0       bool     `json:"has_c0"`
	HasP        bool     `json:"has_p"`
	LBR         int      `json:"linear_before_reset"`
	Acts        []string `json:"activations,omitempty"`
	ExplicitLBR bool     `json:"explicit_lbr"`
	// InputForget: LSTM attribute input_forget (-1 = attribute absent); Direction: explicit "forward" attribute
	InputForget int  `json:"input_forget"`
	Direction   bool `json:"direction"`
	// ActAlphaBeta: activation_alpha / activation_beta lists present (parsed by the operators)
	ActAlphaBeta bool `json:"act_alpha_beta"`
	// NoY: the Y output is not requested (empty name in first position); only the final states are returned
	NoY bool `json:"no_y"`
}

func gates(kind string) int {
	switch kind {
	case "GRU":
		return 3
	case "LSTM":
		return 4
	}
	return 1
}

// DrawRecurrent draws a configuration with sizes >= 2 (sizes of 1 make the operators fail on the
// pinned tree whether or not a sequence is split, which is C06's first-sentence territory).
func DrawRecurrent(r *rng.R, kind string) Recurrent {
	c := Recurrent{Kind: kind, Input: r.Range(2, 4), Hidden: r.Range(2, 4)}
	c.HasB = r.Chance(2, 3)
	c.HasH0 = r.Chance(2, 3)
	if kind == "LSTM" {
		c.HasC0 = r.Chance(2, 3)
		c.HasP = r.Chance(1, 3)
	}
	if kind == "GRU" {
		c.ExplicitLBR = r.Bool()
		c.LBR = r.Intn(2)
	}
	c.InputForget = -1
	if kind == "LSTM" && r.Chance(1, 3) {
		c.InputForget = r.Intn(2)
	}
	c.Direction = r.Chance(1, 5)
	c.ActAlphaBeta = r.Chance(1, 8)
	c.NoY = r.Chance(1, 6)
	if r.Chance(1, 3) {
		switch kind {
		case "RNN":
			c.Acts = []string{pick(r, "tanh", "sigmoid", "relu")}
		case "GRU":
			c.Acts = []string{pick(r, "sigmoid", "tanh"), pick(r, "tanh", "sigmoid", "relu")}
		case "LSTM":
			c.Acts = []string{pick(r, "sigmoid", "tanh"), pick(r, "tanh", "sigmoid"), pick(r, "tanh", "relu")}
		}
	}
	if len(c.Acts) > 0 && r.Chance(1, 5) {
		// a list that is shorter or longer than the operator needs (ONNX: 1 / 2 / 3 entries for forward RNN / GRU / LSTM)
		if r.Bool() && len(c.Acts) > 1 {
			c.Acts = c.Acts[:len(c.Acts)-1]
		} else {
			c.Acts = append(c.Acts, "tanh")
		}
	}
	return c
}

// OpCase builds the node. Weights come from rw; X (and, when stateAsData, the initial states) from rd.
func (c Recurrent) OpCase(rw, rd *rng.R, seq, batch int, stateAsData bool) OpCase {
	g := gates(c.Kind)
	attrs := []mb.Attr{mb.AI("hidden_size", int64(c.Hidden))}
	if c.Kind == "GRU" && c.ExplicitLBR {
		attrs = append(attrs, mb.AI("linear_before_reset", int64(c.LBR)))
	}
	if len(c.Acts) > 0 {
		attrs = append(attrs, mb.AStrings("activations", c.Acts...))
	}
	if c.Kind == "LSTM" && c.InputForget >= 0 {
		attrs = append(attrs, mb.AI("input_forget", int64(c.InputForget)))
	}
	if c.Direction {
		attrs = append(attrs, mb.AS("direction", "forward"))
	}
	if c.ActAlphaBeta {
		attrs = append(attrs, mb.AFloats("activation_alpha", 0.5, 0.25), mb.AFloats("activation_beta", 0.125))
	}
	X := RandF32(rd, []int{seq, batch, c.Input}, -1, 1)
	W := RandF32(rw, []int{1, g * c.Hidden, c.Input}, -1, 1)
	R := RandF32(rw, []int{1, g * c.Hidden, c.Hidden}, -1, 1)
	ops := []Operand{data(X, 1), weight(W), weight(R)}
	if c.HasB {
		ops = append(ops, weight(RandF32(rw, []int{1, 2 * g * c.Hidden}, -1, 1)))
	} else {
		ops = append(ops, absent())
	}
	ops = append(ops, absent()) // sequence_lens
	state := func() Operand {
		if stateAsData {
			return data(RandF32(rd, []int{1, batch, c.Hidden}, -1, 1), 1)
		}
		return weight(RandF32(rw, []int{1, batch, c.Hidden}, -1, 1))
	}
	if c.HasH0 {
		ops = append(ops, state())
	} else {
		ops = append(ops, absent())
	}
	outs := []string{"Y", "Y_h"}
	if c.Kind == "LSTM" {
		if c.HasC0 {
			ops = append(ops, state())
		} else {
			ops = append(ops, absent())
		}
		if c.HasP {
			ops = append(ops, weight(RandF32(rw, []int{1, 3 * c.Hidden}, -1, 1)))
		} else {
			ops = append(ops, absent())
		}
		outs = []string{"Y", "Y_h", "Y_c"}
	}
	if c.NoY {
		outs[0] = ""
	}
	// trailing absent operands are dropped (ONNX allows omitting them)
	for len(ops) > 3 && ops[len(ops)-1].V == nil {
		ops = ops[:len(ops)-1]
	}
	return OpCase{Op: c.Kind, Attrs: attrs, Operands: ops, Outs: outs}
}

func (c Recurrent) String() string {
	return fmt.Sprintf("%s(in=%d,hid=%d,B=%v,h0=%v,c0=%v,P=%v,lbr=%d/%v,acts=%v,input_forget=%d,dir=%v,noY=%v)", c.Kind, c.Input, c.Hidden, c.HasB, c.HasH0, c.HasC0, c.HasP, c.LBR, c.ExplicitLBR, c.Acts, c.InputForget, c.Direction, c.NoY)
}
