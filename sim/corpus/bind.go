package corpus

import (
	"fmt"

	"verifsim/mb"
	"verifsim/rng"
	"verifsim/val"
)

// Binding modes of an operand.
const (
	BIn      = "in"      // graph input supplied by the caller
	BInitRaw = "initraw" // initializer, raw_data
	BInitTyp = "inittyp" // initializer, typed repeated field (storage shared with the protobuf)
	BInitIn  = "initin"  // initializer that is also listed as a graph input (default value)
	BConst   = "const"   // Constant node with a tensor value
	BConstA  = "consta"  // Constant node with value_floats / value_ints (attribute-backed storage)
	BPred    = "pred"    // output of a predecessor node (Reshape of a caller input)
	BPredCat = "predcat" // output of a one-input Concat (which returns its input object itself)
	BUndecl  = "undecl"  // supplied by the caller under a name the graph does not list in graph.input at all
)

// Entry is one model with several valid input sets.
type Entry struct {
	Name      string              `json:"name"`
	Model     *mb.Model           `json:"model"`
	InputSets []map[string]*val.V `json:"input_sets"`
	Sensitive bool                `json:"sensitive"`
	Bindings  []string            `json:"bindings,omitempty"`
	Ops       []string            `json:"ops"`
}

func dyn(shape []int, axis int) []int64 {
	o := make([]int64, len(shape))
	for i, s := range shape {
		o[i] = int64(s)
		if i == axis {
			o[i] = 0
		}
	}
	return o
}

// allowed binding modes for an operand
func modes(o Operand) []string {
	if o.V == nil {
		return nil
	}
	ms := []string{BIn, BInitRaw, BInitTyp, BInitIn, BConst, BPred, BPredCat, BUndecl}
	if len(o.V.Shape) == 1 && (o.V.DT == val.Float32 || o.V.DT == val.Int64) {
		ms = append(ms, BConstA)
	}
	return ms
}

// Bind builds a model from structurally identical OpCases (cases[0] defines the model, every case
// provides one input set). binds[i] is the mode of operand i ("" = natural: data->in, weight->initraw).
func Bind(name string, cases []OpCase, binds []string, sensitive bool) *Entry {
	c0 := cases[0]
	m := &mb.Model{Opset: 13}
	e := &Entry{Name: name, Model: m, Sensitive: sensitive, Ops: []string{c0.Op}}
	node := mb.Node{Op: c0.Op, Attrs: c0.Attrs}
	type inSlot struct {
		operand int
		name    string
	}
	var slots []inSlot
	for i, o := range c0.Operands {
		if o.V == nil {
			node.In = append(node.In, "")
			continue
		}
		mode := ""
		if i < len(binds) {
			mode = binds[i]
		}
		if mode == "" {
			if o.Weight {
				mode = BInitRaw
			} else {
				mode = BIn
			}
		}
		// a batched operand cannot be frozen into the file unless every case has the same batch; the caller
		// guarantees that by passing equal batch sizes when it asks for such a binding.
		nm := fmt.Sprintf("a%d", i)
		e.Bindings = append(e.Bindings, fmt.Sprintf("%d:%s", i, mode))
		switch mode {
		case BIn:
			sh := dyn(o.V.Shape, o.BatchAxis)
			if o.DynSpatial {
				for i := 2; i < len(sh); i++ {
					sh[i] = 0
				}
			}
			m.Inputs = append(m.Inputs, mb.IO{Name: nm, DT: o.V.DT, Shape: sh, NoShape: len(o.V.Shape) == 0 || o.NoShape})
			slots = append(slots, inSlot{i, nm})
			node.In = append(node.In, nm)
		case BUndecl:
			// Run copies every entry of the caller's map into its environment, so a node may read a name that is
			// neither a declared input, nor an initializer, nor a node output - if the caller passes it
			slots = append(slots, inSlot{i, nm})
			node.In = append(node.In, nm)
		case BInitRaw, BInitTyp:
			m.Inits = append(m.Inits, mb.Init{Name: nm, V: o.V.Clone(), Raw: mode == BInitRaw})
			node.In = append(node.In, nm)
		case BInitIn:
			m.Inits = append(m.Inits, mb.Init{Name: nm, V: o.V.Clone(), Raw: true})
			m.Inputs = append(m.Inputs, mb.IO{Name: nm, DT: o.V.DT, Shape: dyn(o.V.Shape, -1), NoShape: len(o.V.Shape) == 0})
			node.In = append(node.In, nm)
		case BConst:
			m.Nodes = append(m.Nodes, mb.Node{Op: "Constant", Out: []string{nm}, Attrs: []mb.Attr{mb.AT("value", &mb.Init{V: o.V.Clone(), Raw: i%2 == 0})}})
			node.In = append(node.In, nm)
		case BConstA:
			var a mb.Attr
			if o.V.DT == val.Float32 {
				a = mb.AFloats("value_floats", o.V.Backing().([]float32)...)
			} else {
				a = mb.AInts("value_ints", o.V.Backing().([]int64)...)
			}
			m.Nodes = append(m.Nodes, mb.Node{Op: "Constant", Out: []string{nm}, Attrs: []mb.Attr{a}})
			node.In = append(node.In, nm)
		case BPred:
			src := nm + "_src"
			m.Inputs = append(m.Inputs, mb.IO{Name: src, DT: o.V.DT, Shape: dyn(o.V.Shape, o.BatchAxis), NoShape: len(o.V.Shape) == 0})
			slots = append(slots, inSlot{i, src})
			shp := make([]int64, len(o.V.Shape))
			for k, s := range o.V.Shape {
				shp[k] = int64(s)
				if k == o.BatchAxis {
					shp[k] = -1
				}
			}
			sn := nm + "_shape"
			m.Inits = append(m.Inits, mb.Init{Name: sn, V: I64([]int{len(shp)}, shp...), Raw: true})
			m.Nodes = append(m.Nodes, mb.Node{Op: "Reshape", In: []string{src, sn}, Out: []string{nm}})
			node.In = append(node.In, nm)
		case BPredCat:
			src := nm + "_src"
			m.Inputs = append(m.Inputs, mb.IO{Name: src, DT: o.V.DT, Shape: dyn(o.V.Shape, o.BatchAxis), NoShape: len(o.V.Shape) == 0})
			slots = append(slots, inSlot{i, src})
			m.Nodes = append(m.Nodes, mb.Node{Op: "Concat", In: []string{src}, Out: []string{nm}, Attrs: []mb.Attr{mb.AI("axis", 0)}})
			node.In = append(node.In, nm)
		default:
			panic("corpus: unknown binding " + mode)
		}
	}
	node.Out = append([]string{}, c0.Outs...)
	m.Nodes = append(m.Nodes, node)
	for _, o := range c0.Outs {
		if o == "" {
			continue // an output that is not requested
		}
		m.Outputs = append(m.Outputs, mb.IO{Name: o, NoShape: true})
	}
	for _, c := range cases {
		set := map[string]*val.V{}
		for _, s := range slots {
			v := c.Operands[s.operand].V
			if c0.Operands[s.operand].Fixed {
				v = c0.Operands[s.operand].V
			}
			set[s.name] = v.Clone()
		}
		e.InputSets = append(e.InputSets, set)
	}
	return e
}

// DrawSingle draws a single-operator entry: template, bindings and three input sets (two of one batch
// size, one of another unless a batched operand was frozen into the file).
func DrawSingle(r *rng.R, ts []Template, tplIdx int, bindIdx int) *Entry {
	t := ts[tplIdx%len(ts)]
	wseed := r.U64()
	b1 := r.Range(1, 3)
	if r.Chance(1, 8) {
		b1 = r.Range(4, 6)
	} else if r.Chance(1, 12) {
		b1 = []int{10, 11, 12, 21, 31, 100, 101, 111}[r.Intn(8)] // extents with more than one decimal digit
	}
	b2 := r.Range(1, 3)
	if b2 == b1 {
		b2 = b1%3 + 1
	}
	pseed := r.U64()
	probe := t.Gen(rng.New(wseed), rng.New(pseed), b1)
	if b1 >= 10 {
		// a two- or three-digit batch of an operand that is large already (image-sized Conv inputs, 16 500-wide rows)
		// would be tens of megabytes per tensor and gigabytes per recorded world: such templates keep small batches
		for _, o := range probe.Operands {
			if o.V != nil && len(o.V.Bits) > 1<<16 {
				b1 = 1 + int(pseed%3)
				if b2 == b1 {
					b2 = b1%3 + 1
				}
				probe = t.Gen(rng.New(wseed), rng.New(pseed), b1)
				break
			}
		}
	}
	binds := make([]string, len(probe.Operands))
	// bindIdx enumerates (operand, mode) pairs; -1 = natural bindings; -2 = random for every operand
	frozenBatch := false
	switch {
	case bindIdx == -2:
		for i, o := range probe.Operands {
			if ms := modes(o); ms != nil && r.Chance(1, 2) {
				binds[i] = ms[r.Intn(len(ms))]
			}
		}
	case bindIdx >= 0:
		var pairs [][2]int
		for i, o := range probe.Operands {
			for k := range modes(o) {
				pairs = append(pairs, [2]int{i, k})
			}
		}
		if len(pairs) > 0 {
			p := pairs[bindIdx%len(pairs)]
			binds[p[0]] = modes(probe.Operands[p[0]])[p[1]]
		}
	}
	for i, o := range probe.Operands {
		if o.V != nil && o.BatchAxis >= 0 && binds[i] != "" && binds[i] != BIn && binds[i] != BPred && binds[i] != BPredCat && binds[i] != BUndecl {
			frozenBatch = true
		}
	}
	if frozenBatch {
		b2 = b1
	}
	var cases []OpCase
	for k, b := range []int{b1, b1, b2} {
		_ = k
		cases = append(cases, t.Gen(rng.New(wseed), rng.New(r.U64()), b))
	}
	cases[0] = t.Gen(rng.New(wseed), rng.New(r.U64()), b1)
	if r.Chance(1, 15) {
		// a node the operator refuses (or fails on) at Init in EVERY Run: an attribute it does not know, or one it
		// knows and does not support. Binding nodes placed before it (Constant, Reshape, Concat) have run by then.
		bad := refusedAttr(r, cases[0].Op)
		for i := range cases {
			cases[i].Attrs = append(append([]mb.Attr{}, cases[i].Attrs...), bad)
		}
	}
	e := Bind(t.Name, cases, binds, t.Sensitive)
	return e
}

// NPairs returns the number of (operand, mode) pairs of template i (for enumeration).
func NPairs(ts []Template, tplIdx int) int {
	t := ts[tplIdx%len(ts)]
	probe := t.Gen(rng.New(1), rng.New(2), 2)
	n := 0
	for _, o := range probe.Operands {
		n += len(modes(o))
	}
	return n
}

// NameNodes gives the NODES of the entry names an exporter or a graph-surgery script might leave behind: none at
// all, one name for all, the per-operator counters of two exported graphs glued together (Constant_0 twice), names
// that are tensor names. Node names carry no meaning in ONNX and need not be unique.
func NameNodes(r *rng.R, e *Entry) {
	mode := r.Intn(5)
	count := map[string]int{}
	for i := range e.Model.Nodes {
		n := &e.Model.Nodes[i]
		switch mode {
		case 0:
			n.NoName = true
		case 1:
			n.Name = "node"
		case 2:
			// every operator type counts from 0, and the counter restarts half-way through the graph
			if i == len(e.Model.Nodes)/2 {
				count = map[string]int{}
			}
			n.Name = fmt.Sprintf("%s_%d", n.Op, count[n.Op])
			count[n.Op]++
		case 3:
			n.Name = fmt.Sprintf("%s_0", n.Op)
		default:
			if len(n.Out) > 0 && r.Bool() {
				n.Name = n.Out[0]
			} else if len(n.In) > 0 {
				n.Name = n.In[0]
			}
		}
	}
}

// InPlaceNames rewrites up to two nodes into the "in-place" naming some exporters and hand-written graphs use: the
// node's output carries the NAME of one of its inputs (x = Relu(x), w = Reshape(w, s), h = GRU(.., h)), so a name is
// re-bound in mid-graph; later readers of the old output name follow. Where the input is a graph input the graph ends up
// with an output (or intermediate) named like an input; where it is an initializer, like a weight. ONNX asks for
// single assignment, gonnx does not check it and simply re-binds the name - whatever it does, it must do it every time.
func InPlaceNames(r *rng.R, e *Entry) {
	m := e.Model
	keep := map[string]bool{"Y": true, "Y_h": true, "Y_c": true, "": true}
	for n := r.Range(1, 2); n > 0; n-- {
		var cand []int
		for i, nd := range m.Nodes {
			if len(nd.Out) >= 1 && !keep[nd.Out[0]] {
				for _, in := range nd.In {
					if in != "" && in != nd.Out[0] {
						cand = append(cand, i)
						break
					}
				}
			}
		}
		if len(cand) == 0 {
			return
		}
		i := cand[r.Intn(len(cand))]
		var ins []string
		for _, in := range m.Nodes[i].In {
			if in != "" && in != m.Nodes[i].Out[0] {
				ins = append(ins, in)
			}
		}
		nw, old := ins[r.Intn(len(ins))], m.Nodes[i].Out[0]
		out := append([]string{}, m.Nodes[i].Out...)
		out[0] = nw
		m.Nodes[i].Out = out
		for j := i + 1; j < len(m.Nodes); j++ {
			in := append([]string{}, m.Nodes[j].In...)
			for k := range in {
				if in[k] == old {
					in[k] = nw
				}
			}
			m.Nodes[j].In = in
		}
		outs := append([]mb.IO{}, m.Outputs...)
		for k := range outs {
			if outs[k].Name == old {
				outs[k].Name = nw
			}
		}
		m.Outputs = outs
	}
}

// OptionalFields adds ONNX fields an inference runtime may ignore (the pinned tree does): a training_info entry whose
// update_binding would overwrite a float32 weight with weight+1, quantization annotations whose scale / zero point are
// extra graph INPUTS (different values in every input set), and an unused model-local function.
func OptionalFields(r *rng.R, e *Entry) {
	m := e.Model
	var floats []string
	for _, in := range m.Inits {
		if in.V != nil && in.V.DT == val.Float32 && len(in.V.Shape) > 0 {
			floats = append(floats, in.Name)
		}
	}
	if len(floats) == 0 {
		return
	}
	w := floats[r.Intn(len(floats))]
	switch r.Intn(3) {
	case 0:
		m.Training = append(m.Training, w)
	case 1:
		sc, zp := w+"_scale", w+"_zero_point"
		m.Inputs = append(m.Inputs, mb.IO{Name: sc, DT: val.Float32, Shape: []int64{1}}, mb.IO{Name: zp, DT: val.Float32, Shape: []int64{1}})
		m.Quant = append(m.Quant, mb.Quant{Tensor: w, Scale: sc, ZeroPoint: zp})
		for i, set := range e.InputSets {
			set[sc] = F32([]int{1}, []float32{0.5, 0.25, 2, 1}[(i+r.Intn(4))%4])
			set[zp] = F32([]int{1}, []float32{0, 1, -3, 128}[(i+r.Intn(4))%4])
		}
	default:
		m.Training = append(m.Training, w)
		m.Functions = append(m.Functions, mb.Function{Name: "LocalF", Body: []string{"Relu", "LocalG"}}, mb.Function{Name: "LocalG", Body: []string{"Tanh"}})
	}
}

// Reorder permutes what ONNX leaves unordered: the attributes of every node, the declarations of graph inputs,
// outputs and initializers. (Node order is topological and stays.)
func Reorder(r *rng.R, e *Entry) {
	m := e.Model
	for i := range m.Nodes {
		a := append([]mb.Attr{}, m.Nodes[i].Attrs...)
		for j := len(a) - 1; j > 0; j-- {
			k := r.Intn(j + 1)
			a[j], a[k] = a[k], a[j]
		}
		m.Nodes[i].Attrs = a
	}
	ins := append([]mb.IO{}, m.Inputs...)
	for j := len(ins) - 1; j > 0; j-- {
		k := r.Intn(j + 1)
		ins[j], ins[k] = ins[k], ins[j]
	}
	m.Inputs = ins
	outs := append([]mb.IO{}, m.Outputs...)
	for j := len(outs) - 1; j > 0; j-- {
		k := r.Intn(j + 1)
		outs[j], outs[k] = outs[k], outs[j]
	}
	m.Outputs = outs
	inits := append([]mb.Init{}, m.Inits...)
	for j := len(inits) - 1; j > 0; j-- {
		k := r.Intn(j + 1)
		inits[j], inits[k] = inits[k], inits[j]
	}
	m.Inits = inits
}

// RenameTricky renames every tensor of the entry (consistently, in the model and in the input sets) to names that
// are legal but awkward: prefixes of one another, separators, spaces, non-ASCII, very long, or differing only in
// case. Output names of recurrent nodes are left alone (LSTM on the pinned tree only knows Y / Y_h / Y_c).
func RenameTricky(r *rng.R, e *Entry) {
	style := r.Intn(8)
	keep := map[string]bool{"Y": true, "Y_h": true, "Y_c": true, "": true}
	names := map[string]string{}
	n := 0
	mk := func(old string) string {
		if keep[old] {
			return old
		}
		if v, ok := names[old]; ok {
			return v
		}
		n++
		var v string
		switch style {
		case 0:
			v = "t" + fmt.Sprint(n) // t1, t10, t11 ...: prefixes of one another once n > 9
			if n > 1 {
				v = "t1" + fmt.Sprint(n)
			}
		case 1:
			v = fmt.Sprintf("scope/%d:0", n)
		case 2:
			v = fmt.Sprintf("name with spaces %d", n)
		case 3:
			v = fmt.Sprintf("tensör_%d_名前", n)
		case 4:
			v = fmt.Sprintf("%0200d", n)
		case 6:
			// names that become EQUAL under a normalisation nobody should apply: surrounding white space, NFC vs NFD
			// (é as one code point or as e + combining acute), a zero-width joiner, a trailing NUL
			base := fmt.Sprintf("caf\u00e9_%d", (n-1)/6)
			v = []string{base, fmt.Sprintf("cafe\u0301_%d", (n-1)/6), base + " ", " " + base, base + "\u200d", base + "\t"}[(n-1)%6]
		case 7:
			// names that are equal as far as strings.EqualFold, ToLower or ToUpper can tell
			base := fmt.Sprintf("Stra\u00dfe_K_%d", (n-1)/4)
			v = []string{base, fmt.Sprintf("STRASSE_K_%d", (n-1)/4), fmt.Sprintf("stra\u00dfe_\u212a_%d", (n-1)/4), fmt.Sprintf("\u017ftra\u00dfe_k_%d", (n-1)/4)}[(n-1)%4]
		default:
			v = []string{"x", "X", "x_", "X_", "xX", "Xx", "x.", "X."}[n%8] + fmt.Sprint(n/8)
		}
		names[old] = v
		return v
	}
	m := e.Model
	for i := range m.Inputs {
		m.Inputs[i].Name = mk(m.Inputs[i].Name)
	}
	for i := range m.Inits {
		m.Inits[i].Name = mk(m.Inits[i].Name)
	}
	for i := range m.Nodes {
		for k := range m.Nodes[i].In {
			m.Nodes[i].In[k] = mk(m.Nodes[i].In[k])
		}
		for k := range m.Nodes[i].Out {
			m.Nodes[i].Out[k] = mk(m.Nodes[i].Out[k])
		}
	}
	for i := range m.Outputs {
		m.Outputs[i].Name = mk(m.Outputs[i].Name)
	}
	for i, set := range e.InputSets {
		ns := map[string]*val.V{}
		for k, v := range set {
			ns[mk(k)] = v
		}
		e.InputSets[i] = ns
	}
}

// refusedAttr returns an attribute that makes the operator's Init fail.
func refusedAttr(r *rng.R, op string) mb.Attr {
	switch op {
	case "RNN", "GRU", "LSTM":
		return pick(r, mb.AF("clip", 3), mb.AS("direction", "reverse"), mb.AS("direction", "bidirectional"), mb.AI("layout", 1), mb.AI("bogus_attribute", 1))
	case "Conv":
		return pick(r, mb.AI("group", 2), mb.AI("bogus_attribute", 1))
	case "ArgMax":
		return pick(r, mb.AI("select_last_index", 1), mb.AI("bogus_attribute", 1))
	case "LinearRegressor":
		return pick(r, mb.AS("post_transform", "SOFTMAX"), mb.AI("bogus_attribute", 1))
	case "Constant":
		return pick(r, mb.AS("value_string", "x"), mb.AStrings("value_strings", "x", "y"))
	}
	return pick(r, mb.AI("bogus_attribute", 1), mb.AF("another_bogus_attribute", 0.5), mb.AInts("axes_bogus", 1, 2))
}

// ConvImageEntry: a padded 3x3 convolution over an image-sized input (4 x 128 x 128 = 65 536 elements, the size at
// which padding buffers, im2col and tiling take other paths). Used where the seeded draw (1 Conv in 25) is too rare.
func ConvImageEntry() *Entry {
	r := rng.New(0x1263)
	m := &mb.Model{Opset: 13,
		Inputs:  []mb.IO{{Name: "x", DT: val.Float32, Shape: []int64{0, 4, 128, 128}}},
		Outputs: []mb.IO{{Name: "y", NoShape: true}},
		Inits:   []mb.Init{{Name: "K", V: RandF32(r, []int{1, 4, 3, 3}, -1, 1), Raw: true}, {Name: "B", V: RandF32(r, []int{1}, -1, 1), Raw: true}},
		Nodes:   []mb.Node{{Op: "Conv", In: []string{"x", "K", "B"}, Out: []string{"y"}, Attrs: []mb.Attr{mb.AInts("pads", 1, 1, 1, 1)}}},
	}
	e := &Entry{Name: "Conv/image-sized-padded", Model: m, Sensitive: true, Ops: []string{"Conv"}}
	for i := 0; i < 2; i++ {
		e.InputSets = append(e.InputSets, map[string]*val.V{"x": RandF32(r, []int{1, 4, 128, 128}, -2, 2)})
	}
	return e
}

// DefaultRecurrentEntry: a recurrent node that relies on every default (no activations list, no optional
// attributes), used as a sentinel.
func DefaultRecurrentEntry(kind string) *Entry {
	c := Recurrent{Kind: kind, Input: 3, Hidden: 3, HasB: true, HasH0: true, HasC0: kind == "LSTM", InputForget: -1}
	oc := c.OpCase(rng.New(11), rng.New(12), 3, 2, true)
	return Bind("sentinel/default-"+kind, []OpCase{oc}, nil, true)
}
