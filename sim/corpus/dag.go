package corpus

import (
	"fmt"
	"os"
	"path/filepath"

	"github.com/advancedclimatesystems/gonnx/onnx"
	"google.golang.org/protobuf/proto"

	"verifsim/mb"
	"verifsim/rng"
	"verifsim/val"
)

// DrawDAG draws a 2-6 node graph over [b,3] float32 values with fan-out, fan-in, repeated operator
// types with different attributes, weights in both encodings and attribute-backed tensors.
func DrawDAG(r *rng.R) *Entry {
	m := &mb.Model{Opset: 13}
	e := &Entry{Name: "dag", Model: m, Sensitive: false}
	nin := r.Range(1, 2)
	if r.Chance(1, 40) {
		nin = []int{33, 65, 70, 130}[r.Intn(4)] // wide signatures: per-input tables, bit sets over inputs
	}
	// a sixth of the graphs work on rank-3 activations [batch, sequence, 3] with both leading axes dynamic
	rank3 := nin <= 2 && r.Chance(1, 6)
	vals := []string{}
	for i := 0; i < nin; i++ {
		nm := fmt.Sprintf("x%d", i)
		if rank3 {
			m.Inputs = append(m.Inputs, mb.IO{Name: nm, DT: val.Float32, Shape: []int64{0, 0, 3}})
			vals = append(vals, nm)
			continue
		}
		m.Inputs = append(m.Inputs, mb.IO{Name: nm, DT: val.Float32, Shape: []int64{0, 3}})
		vals = append(vals, nm)
	}
	nw := 0
	newWeight := func(shape []int) string {
		nm := fmt.Sprintf("w%d", nw)
		nw++
		m.Inits = append(m.Inits, mb.Init{Name: nm, V: RandF32(r, shape, -1, 1), Raw: r.Bool()})
		return nm
	}
	nn := r.Range(2, 6)
	if r.Chance(1, 40) {
		nn = []int{33, 65, 70, 130, 260}[r.Intn(5)] // long graphs: node-indexed tables, bit sets, per-node caches
	} else if r.Chance(1, 40) {
		nn = 0 // no nodes at all: every output is an input or a weight handed straight through
	}
	for i := 0; i < nn; i++ {
		out := fmt.Sprintf("v%d", i)
		src := vals[r.Intn(len(vals))]
		var n mb.Node
		kind := r.Intn(11)
		if nn > 30 && kind >= 3 && kind != 10 {
			kind = r.Intn(3)
		}
		if rank3 {
			kind = []int{0, 1, 2, 3, 6, 11, 11}[r.Intn(7)]
		}
		switch kind {
		case 0:
			n = mb.Node{Op: pick(r, "Relu", "Tanh", "Sigmoid", "Abs", "Sin", "Atan"), In: []string{src}}
		case 1:
			n = mb.Node{Op: pick(r, "Add", "Sub", "Mul"), In: []string{src, newWeight(pick(r, []int{3}, []int{1, 3}, []int{1}))}}
		case 2:
			other := vals[r.Intn(len(vals))]
			if r.Chance(1, 3) {
				other = src // x*x, x+x: one node reading the same tensor in two slots
			}
			n = mb.Node{Op: pick(r, "Add", "Mul", "Sub"), In: []string{src, other}}
		case 3:
			n = mb.Node{Op: "MatMul", In: []string{src, newWeight([]int{3, 3})}}
		case 4:
			attrs := []mb.Attr{}
			bs := []int{3, 3}
			if r.Bool() {
				attrs = append(attrs, mb.AI("transB", 1))
			}
			if r.Bool() {
				attrs = append(attrs, mb.AF("alpha", float32(r.Range(1, 4))/2))
			}
			n = mb.Node{Op: "Gemm", In: []string{src, newWeight(bs), newWeight(pick(r, []int{3}, []int{1, 3}))}, Attrs: attrs}
		case 5:
			off := []float32{float32(r.Range(-4, 4)) / 2, float32(r.Range(-4, 4)) / 2, float32(r.Range(-4, 4)) / 2}
			sc := []float32{float32(r.Range(1, 4)) / 2, float32(r.Range(1, 4)) / 2, float32(r.Range(1, 4)) / 2}
			n = mb.Node{Op: "Scaler", In: []string{src}, Attrs: []mb.Attr{mb.AFloats("offset", off...), mb.AFloats("scale", sc...)}}
		case 6:
			n = mb.Node{Op: pick(r, "Softmax", "LogSoftmax"), In: []string{src}, Attrs: []mb.Attr{mb.AI("axis", int64(pick(r, 1, -1)))}}
		case 7:
			// Unsqueeze -> Squeeze round trip through a weight-held axes tensor, as one node pair
			mid := out + "_u"
			ax := fmt.Sprintf("ax%d", i)
			m.Inits = append(m.Inits, mb.Init{Name: ax, V: I64([]int{1}, 1), Raw: r.Bool()})
			m.Nodes = append(m.Nodes, mb.Node{Op: "Unsqueeze", In: []string{src, ax}, Out: []string{mid}})
			n = mb.Node{Op: "Squeeze", In: []string{mid, ax}}
		case 8:
			// Conv over the feature axis: [b,3] -> [b,1,3] -> conv(k=1, bias) -> [b,3]
			mid, mid2 := out+"_a", out+"_c"
			ax := fmt.Sprintf("ax%d", i)
			m.Inits = append(m.Inits, mb.Init{Name: ax, V: I64([]int{1}, 1), Raw: true})
			m.Nodes = append(m.Nodes, mb.Node{Op: "Unsqueeze", In: []string{src, ax}, Out: []string{mid}})
			k := fmt.Sprintf("k%d", i)
			bb := fmt.Sprintf("kb%d", i)
			m.Inits = append(m.Inits, mb.Init{Name: k, V: RandF32(r, []int{1, 1, 1}, -1, 1), Raw: r.Bool()})
			m.Inits = append(m.Inits, mb.Init{Name: bb, V: RandF32(r, []int{1}, -1, 1), Raw: r.Bool()})
			m.Nodes = append(m.Nodes, mb.Node{Op: "Conv", In: []string{mid, k, bb}, Out: []string{mid2}})
			n = mb.Node{Op: "Squeeze", In: []string{mid2, ax}}
		case 11:
			// the dense-layer idiom on a sequence: MatMul with a [3,3] weight, then Add of a rank-1 bias
			mid := out + "_mm"
			m.Nodes = append(m.Nodes, mb.Node{Op: "MatMul", In: []string{src, newWeight([]int{3, 3})}, Out: []string{mid}})
			n = mb.Node{Op: "Add", In: pick(r, []string{mid, newWeight([]int{3})}, []string{newWeight([]int{3}), mid})}
		case 9:
			// positional-embedding idiom: a [1,3] weight expanded to the run-time shape of an activation and added to it
			// (for batch 1 the expansion is a no-op and Expand hands the weight itself on)
			shp, ex := out+"_shape", out+"_pos"
			m.Nodes = append(m.Nodes, mb.Node{Op: "Shape", In: []string{src}, Out: []string{shp}})
			m.Nodes = append(m.Nodes, mb.Node{Op: "Expand", In: []string{newWeight([]int{1, 3}), shp}, Out: []string{ex}})
			n = mb.Node{Op: pick(r, "Add", "Mul"), In: pick(r, []string{ex, src}, []string{src, ex})}
		default:
			c := fmt.Sprintf("c%d", i)
			m.Nodes = append(m.Nodes, mb.Node{Op: "Constant", Out: []string{c}, Attrs: []mb.Attr{mb.AFloats("value_floats", float32(r.Range(-4, 4))/2, 1, float32(r.Range(-4, 4))/2)}})
			n = mb.Node{Op: pick(r, "Add", "Mul"), In: []string{src, c}}
		}
		n.Out = []string{out}
		m.Nodes = append(m.Nodes, n)
		vals = append(vals, out)
	}
	if len(m.Nodes) >= 2 && r.Chance(1, 15) {
		// one node (never the first) carries an attribute its operator refuses: every Run fails there, after the
		// nodes before it have run
		k := r.Range(1, len(m.Nodes)-1)
		m.Nodes[k].Attrs = append(append([]mb.Attr{}, m.Nodes[k].Attrs...), refusedAttr(r, m.Nodes[k].Op))
	}
	for _, n := range m.Nodes {
		e.Ops = append(e.Ops, n.Op)
	}
	// outputs: the last value, sometimes an intermediate, rarely an input or a weight directly
	m.Outputs = append(m.Outputs, mb.IO{Name: vals[len(vals)-1], NoShape: true})
	if r.Chance(1, 2) {
		o := vals[r.Intn(len(vals))]
		if o != vals[len(vals)-1] {
			m.Outputs = append(m.Outputs, mb.IO{Name: o, NoShape: true})
		}
	}
	if nw > 0 && r.Chance(1, 6) {
		m.Outputs = append(m.Outputs, mb.IO{Name: "w0", NoShape: true})
	}
	if nin > 30 || r.Chance(1, 30) {
		// many outputs: every input and every fifth value
		for i, v := range vals {
			if i < nin || i%5 == 0 {
				m.Outputs = append(m.Outputs, mb.IO{Name: v, NoShape: true})
			}
		}
	}
	if nn == 0 && nw == 0 && r.Bool() {
		m.Outputs = append(m.Outputs, mb.IO{Name: newWeight([]int{1, 3}), NoShape: true})
	}
	b1 := r.Range(1, 3)
	b2 := b1%3 + 1
	if nin <= 2 && r.Chance(1, 12) {
		b1 = []int{10, 11, 12, 21, 31, 101}[r.Intn(6)]
	}
	for k, b := range []int{b1, b1, b2} {
		set := map[string]*val.V{}
		for i := 0; i < nin; i++ {
			if rank3 {
				// same batch size throughout, another sequence length in the third set
				set[fmt.Sprintf("x%d", i)] = RandF32(r, []int{b1, []int{2, 2, 4}[k] + b2 - 1, 3}, -2, 2)
				continue
			}
			set[fmt.Sprintf("x%d", i)] = RandF32(r, []int{b, 3}, -2, 2)
		}
		e.InputSets = append(e.InputSets, set)
	}
	return e
}

// SampleEntry wraps one of the repository's sample models; Bytes is used instead of Model.
type SampleEntry struct {
	Name      string
	Bytes     []byte
	InputSets []map[string]*val.V
}

// Samples loads the sample models that are real ONNX files; input sets follow the declared signature
// (dynamic axes take the batch size b).
func Samples(repo string, r *rng.R) []SampleEntry {
	dir := filepath.Join(repo, "sample_models", "onnx_models")
	var out []SampleEntry
	for _, f := range []string{"mlp.onnx", "gru.onnx", "scaler.onnx", "ndm.onnx"} {
		b, err := os.ReadFile(filepath.Join(dir, f))
		if err != nil {
			continue
		}
		mp := &onnx.ModelProto{}
		if err := proto.Unmarshal(b, mp); err != nil {
			continue
		}
		inits := map[string]bool{}
		for _, i := range mp.GetGraph().GetInitializer() {
			inits[i.GetName()] = true
		}
		se := SampleEntry{Name: "sample:" + f, Bytes: b}
		for _, bs := range []int{1, 1, 2} {
			set := map[string]*val.V{}
			for _, vi := range mp.GetGraph().GetInput() {
				if inits[vi.GetName()] {
					continue
				}
				var shape []int
				for _, d := range vi.GetType().GetTensorType().GetShape().GetDim() {
					e := int(d.GetDimValue())
					if e == 0 {
						e = bs
					}
					shape = append(shape, e)
				}
				set[vi.GetName()] = RandF32(r, shape, -1, 1)
			}
			se.InputSets = append(se.InputSets, set)
		}
		out = append(out, se)
	}
	return out
}
