// Package rng is the single source of pseudo-randomness of the simulator.
// It is a splitmix64-seeded xoshiro256** so that the stream does not depend on
// the Go toolchain's math/rand implementation.
package rng

type R struct{ s [4]uint64 }

func splitmix(x *uint64) uint64 {
	*x += 0x9e3779b97f4a7c15
	z := *x
	z = (z ^ (z >> 30)) * 0xbf58476d1ce4e5b9
	z = (z ^ (z >> 27)) * 0x94d049bb133111eb
	return z ^ (z >> 31)
}

// Mix derives an independent seed from a seed and indices.
func Mix(seed uint64, idx ...uint64) uint64 {
	x := seed
	out := splitmix(&x)
	for _, i := range idx {
		x ^= i*0x9e3779b97f4a7c15 + 0x7f4a7c15
		out = splitmix(&x)
	}
	return out
}

func New(seed uint64) *R {
	r := &R{}
	x := seed
	for i := range r.s {
		r.s[i] = splitmix(&x)
	}
	return r
}

func rotl(x uint64, k uint) uint64 { return (x << k) | (x >> (64 - k)) }

func (r *R) U64() uint64 {
	s := &r.s
	res := rotl(s[1]*5, 7) * 9
	t := s[1] << 17
	s[2] ^= s[0]
	s[3] ^= s[1]
	s[1] ^= s[2]
	s[0] ^= s[3]
	s[2] ^= t
	s[3] = rotl(s[3], 45)
	return res
}

// Intn returns a value in [0,n). n<=0 returns 0.
func (r *R) Intn(n int) int {
	if n <= 1 {
		return 0
	}
	return int(r.U64() % uint64(n))
}

// Range returns a value in [lo,hi].
func (r *R) Range(lo, hi int) int { return lo + r.Intn(hi-lo+1) }

func (r *R) Float() float64 { return float64(r.U64()>>11) / (1 << 53) }

func (r *R) Bool() bool { return r.U64()&1 == 1 }

// Chance returns true with probability num/den.
func (r *R) Chance(num, den int) bool { return r.Intn(den) < num }

// Perm returns a permutation of 0..n-1.
func (r *R) Perm(n int) []int {
	p := make([]int, n)
	for i := range p {
		p[i] = i
	}
	for i := n - 1; i > 0; i-- {
		j := r.Intn(i + 1)
		p[i], p[j] = p[j], p[i]
	}
	return p
}

// Fork derives an independent child generator.
func (r *R) Fork() *R { return New(r.U64()) }
