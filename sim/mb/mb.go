// Package mb (model builder) turns a small JSON-serialisable model description
// into the bytes of an ONNX file, using the repository's own generated protobuf
// types and proto.Marshal, so that what the simulator loads is what a user's
// exporter would have written.
package mb

import (
	"encoding/binary"
	"fmt"

	"github.com/advancedclimatesystems/gonnx/onnx"
	"google.golang.org/protobuf/proto"

	"verifsim/val"
)

// Attr is one node attribute. Exactly one of the value fields is meaningful, chosen by Kind.
type Attr struct {
	Name    string    `json:"name"`
	Kind    string    `json:"kind"` // i f s ints floats strings t
	I       int64     `json:"i,omitempty"`
	F       float32   `json:"f,omitempty"`
	S       string    `json:"s,omitempty"`
	Ints    []int64   `json:"ints,omitempty"`
	Floats  []float32 `json:"floats,omitempty"`
	Strings []string  `json:"strings,omitempty"`
	T       *Init     `json:"t,omitempty"`
}

func AI(name string, v int64) Attr           { return Attr{Name: name, Kind: "i", I: v} }
func AF(name string, v float32) Attr         { return Attr{Name: name, Kind: "f", F: v} }
func AS(name string, v string) Attr          { return Attr{Name: name, Kind: "s", S: v} }
func AInts(name string, v ...int64) Attr     { return Attr{Name: name, Kind: "ints", Ints: v} }
func AFloats(name string, v ...float32) Attr { return Attr{Name: name, Kind: "floats", Floats: v} }
func AStrings(name string, v ...string) Attr { return Attr{Name: name, Kind: "strings", Strings: v} }
func AT(name string, t *Init) Attr           { return Attr{Name: name, Kind: "t", T: t} }

type Node struct {
	Op    string   `json:"op"`
	In    []string `json:"in"`
	Out   []string `json:"out"`
	Attrs []Attr   `json:"attrs,omitempty"`
	// Domain is the operator-set domain of the node ("" = ai.onnx)
	Domain string `json:"domain,omitempty"`
	// Name overrides the generated node name n<i>; NoName leaves the node nameless.
	Name   string `json:"name,omitempty"`
	NoName bool   `json:"noname,omitempty"`
}

// Init is an initializer (or a tensor-valued attribute): a value and how it is encoded.
type Init struct {
	Name string `json:"name"`
	V    *val.V `json:"v"`
	Raw  bool   `json:"raw"`
}

// IO declares a graph input or output. A 0 extent is a dynamic axis (that is how gonnx reads it).
type IO struct {
	Name  string  `json:"name"`
	DT    val.DT  `json:"dt"`
	Shape []int64 `json:"shape"`
	// NoShape omits the shape altogether (value-info without type).
	NoShape bool `json:"noshape,omitempty"`
}

type Model struct {
	Opset   int64   `json:"opset"`
	Opsets  []int64 `json:"opsets,omitempty"` // extra imports
	Nodes   []Node  `json:"nodes"`
	Inputs  []IO    `json:"inputs"`
	Outputs []IO    `json:"outputs"`
	Inits   []Init  `json:"inits"`
	// Optional ONNX fields an inference-only runtime may ignore (the pinned tree does) or start to honour:
	// Training: for each named initializer a training_info entry whose algorithm computes <name>+1 and whose
	// update_binding binds the result back to <name>. Quant: quantization_annotation entries. Functions: model-local
	// functions (name -> body given as a chain of node operator types / callee names).
	Training  []string   `json:"training,omitempty"`
	Quant     []Quant    `json:"quant,omitempty"`
	Functions []Function `json:"functions,omitempty"`
}

// Quant annotates tensor Tensor with a scale and a zero-point tensor (names of initializers or graph inputs).
type Quant struct {
	Tensor    string `json:"tensor"`
	Scale     string `json:"scale,omitempty"`
	ZeroPoint string `json:"zero_point,omitempty"`
}

// Function is a model-local function of one input and one output whose body applies Body[0], Body[1], ... in turn
// (each an operator type or the name of another function).
type Function struct {
	Name   string   `json:"name"`
	Domain string   `json:"domain,omitempty"`
	Body   []string `json:"body"`
}

// TensorProto encodes a value either in the typed repeated field ONNX prescribes for its
// element type or as little-endian raw_data.
func TensorProto(in *Init) *onnx.TensorProto {
	v := in.V
	tp := &onnx.TensorProto{Name: in.Name, DataType: int32(v.DT)}
	for _, d := range v.Shape {
		tp.Dims = append(tp.Dims, int64(d))
	}
	if in.Raw {
		tp.RawData = RawBytes(v)
		return tp
	}
	switch v.DT {
	case val.Float32:
		tp.FloatData = v.Backing().([]float32)
	case val.Float64:
		tp.DoubleData = v.Backing().([]float64)
	case val.Int64:
		tp.Int64Data = v.Backing().([]int64)
	case val.Uint64:
		tp.Uint64Data = v.Backing().([]uint64)
	case val.Uint32:
		for _, b := range v.Bits {
			tp.Uint64Data = append(tp.Uint64Data, uint64(uint32(b)))
		}
	case val.Int32:
		tp.Int32Data = v.Backing().([]int32)
	case val.Int8:
		for _, b := range v.Bits {
			tp.Int32Data = append(tp.Int32Data, int32(int8(b)))
		}
	case val.Int16:
		for _, b := range v.Bits {
			tp.Int32Data = append(tp.Int32Data, int32(int16(b)))
		}
	case val.Uint8:
		for _, b := range v.Bits {
			tp.Int32Data = append(tp.Int32Data, int32(uint8(b)))
		}
	case val.Uint16:
		for _, b := range v.Bits {
			tp.Int32Data = append(tp.Int32Data, int32(uint16(b)))
		}
	case val.Bool:
		for _, b := range v.Bits {
			tp.Int32Data = append(tp.Int32Data, int32(b&1))
		}
	default:
		panic("mb: cannot encode " + v.DT.String())
	}
	return tp
}

// RawBytes is the ONNX raw_data encoding: fixed width, little endian, row major.
func RawBytes(v *val.V) []byte {
	sz := v.DT.Size()
	out := make([]byte, 0, sz*len(v.Bits))
	var b [8]byte
	for _, x := range v.Bits {
		binary.LittleEndian.PutUint64(b[:], x)
		out = append(out, b[:sz]...)
	}
	return out
}

func valueInfo(io IO) *onnx.ValueInfoProto {
	vi := &onnx.ValueInfoProto{Name: io.Name}
	if io.NoShape {
		if io.DT > 0 {
			// element type declared, shape absent
			vi.Type = &onnx.TypeProto{Value: &onnx.TypeProto_TensorType{TensorType: &onnx.TypeProto_Tensor{ElemType: int32(io.DT)}}}
		}
		return vi
	}
	sh := &onnx.TensorShapeProto{}
	for i, d := range io.Shape {
		dim := &onnx.TensorShapeProto_Dimension{}
		if d == 0 {
			dim.Value = &onnx.TensorShapeProto_Dimension_DimParam{DimParam: fmt.Sprintf("d%d", i)}
		} else {
			dim.Value = &onnx.TensorShapeProto_Dimension_DimValue{DimValue: d}
		}
		sh.Dim = append(sh.Dim, dim)
	}
	// gonnx skips value-infos whose dim list is nil, so a rank-0 declaration must carry
	// an empty non-nil list; protobuf cannot distinguish those on the wire, so rank-0
	// inputs are simply left without shape by the corpus.
	vi.Type = &onnx.TypeProto{Value: &onnx.TypeProto_TensorType{TensorType: &onnx.TypeProto_Tensor{
		ElemType: int32(io.DT), Shape: sh,
	}}}
	return vi
}

func attrProto(a Attr) *onnx.AttributeProto {
	ap := &onnx.AttributeProto{Name: a.Name}
	switch a.Kind {
	case "i":
		ap.Type = onnx.AttributeProto_INT
		ap.I = a.I
	case "f":
		ap.Type = onnx.AttributeProto_FLOAT
		ap.F = a.F
	case "s":
		ap.Type = onnx.AttributeProto_STRING
		ap.S = []byte(a.S)
	case "ints":
		ap.Type = onnx.AttributeProto_INTS
		ap.Ints = append([]int64{}, a.Ints...)
	case "floats":
		ap.Type = onnx.AttributeProto_FLOATS
		ap.Floats = append([]float32{}, a.Floats...)
	case "strings":
		ap.Type = onnx.AttributeProto_STRINGS
		for _, s := range a.Strings {
			ap.Strings = append(ap.Strings, []byte(s))
		}
	case "t":
		ap.Type = onnx.AttributeProto_TENSOR
		ap.T = TensorProto(a.T)
	default:
		panic("mb: attr kind " + a.Kind)
	}
	return ap
}

// Proto builds the protobuf message.
func (m *Model) Proto() *onnx.ModelProto {
	g := &onnx.GraphProto{Name: "g"}
	for i, n := range m.Nodes {
		np := &onnx.NodeProto{OpType: n.Op, Name: fmt.Sprintf("n%d", i), Domain: n.Domain}
		if n.Name != "" {
			np.Name = n.Name
		}
		if n.NoName {
			np.Name = ""
		}
		np.Input = append([]string{}, n.In...)
		np.Output = append([]string{}, n.Out...)
		for _, a := range n.Attrs {
			np.Attribute = append(np.Attribute, attrProto(a))
		}
		g.Node = append(g.Node, np)
	}
	for i := range m.Inits {
		g.Initializer = append(g.Initializer, TensorProto(&m.Inits[i]))
	}
	for _, io := range m.Inputs {
		g.Input = append(g.Input, valueInfo(io))
	}
	for _, io := range m.Outputs {
		g.Output = append(g.Output, valueInfo(io))
	}
	for _, q := range m.Quant {
		ta := &onnx.TensorAnnotation{TensorName: q.Tensor}
		if q.Scale != "" {
			ta.QuantParameterTensorNames = append(ta.QuantParameterTensorNames, &onnx.StringStringEntryProto{Key: "SCALE_TENSOR", Value: q.Scale})
		}
		if q.ZeroPoint != "" {
			ta.QuantParameterTensorNames = append(ta.QuantParameterTensorNames, &onnx.StringStringEntryProto{Key: "ZERO_POINT_TENSOR", Value: q.ZeroPoint})
		}
		g.QuantizationAnnotation = append(g.QuantizationAnnotation, ta)
	}
	mp := &onnx.ModelProto{IrVersion: 7, ProducerName: "verifsim", Graph: g}
	for _, w := range m.Training {
		one := &onnx.TensorProto{Name: w + "_ti_one", DataType: int32(val.Float32), Dims: []int64{1}, FloatData: []float32{1}}
		alg := &onnx.GraphProto{Name: "step", Initializer: []*onnx.TensorProto{one},
			Node:   []*onnx.NodeProto{{OpType: "Add", Name: "ti_add", Input: []string{w, one.Name}, Output: []string{w + "_ti_new"}}},
			Output: []*onnx.ValueInfoProto{{Name: w + "_ti_new"}}}
		mp.TrainingInfo = append(mp.TrainingInfo, &onnx.TrainingInfoProto{Algorithm: alg,
			UpdateBinding: []*onnx.StringStringEntryProto{{Key: w, Value: w + "_ti_new"}}})
	}
	for _, f := range m.Functions {
		fp := &onnx.FunctionProto{Name: f.Name, Domain: f.Domain, Input: []string{"fx"}, Output: []string{"fy"},
			OpsetImport: []*onnx.OperatorSetIdProto{{Version: 13}}}
		cur := "fx"
		for i, op := range f.Body {
			out := fmt.Sprintf("f%d", i)
			if i == len(f.Body)-1 {
				out = "fy"
			}
			fp.Node = append(fp.Node, &onnx.NodeProto{OpType: op, Domain: f.Domain, Input: []string{cur}, Output: []string{out}})
			cur = out
		}
		mp.Functions = append(mp.Functions, fp)
	}
	mp.OpsetImport = append(mp.OpsetImport, &onnx.OperatorSetIdProto{Domain: "", Version: m.Opset})
	for _, v := range m.Opsets {
		mp.OpsetImport = append(mp.OpsetImport, &onnx.OperatorSetIdProto{Domain: "x", Version: v})
	}
	return mp
}

// Bytes serialises the model deterministically.
func (m *Model) Bytes() []byte {
	b, err := proto.MarshalOptions{Deterministic: true}.Marshal(m.Proto())
	if err != nil {
		panic(err)
	}
	return b
}
