// Package evid holds what workers report to the batch driver and what the driver
// writes out: statistics, violations with replay data, known-finding matching and
// the evidence file.
package evid

import (
	"bufio"
	"encoding/binary"
	"encoding/json"
	"fmt"
	"os"
	"sort"
	"strings"
)

// Violation is one observed breach of a property.
type Violation struct {
	Property  string          `json:"property"`
	Signature string          `json:"signature"` // stable identity: kind + where + role
	What      string          `json:"what"`      // human-readable detail
	Case      json.RawMessage `json:"case"`      // everything needed to re-execute
	// Seq / W: position of the case in the stream of worker W (a pure function of seed, tier and worker index): lets
	// the driver re-execute the worker's whole history up to this case when nothing shorter reproduces it.
	Seq int64 `json:"seq"`
	W   int   `json:"w"`
}

// Stats is a worker's report.
type Stats struct {
	Evals      int64            `json:"evals"`
	NonTrivial int64            `json:"nontrivial"`
	Steps      int64            `json:"steps"`
	Faults     map[string]int64 `json:"faults"`
	Probes     map[string]int64 `json:"probes"`
	Known      map[string]int64 `json:"known"`
	Violations []Violation      `json:"violations"`
	Samples    []interface{}    `json:"samples"`
	Hashes     []uint64         `json:"-"`               // hashes of non-trivial cases (distinctness)
	Hashes2    []uint64         `json:"-"`               // second measure (e.g. interleavings)
	Trouble    []string         `json:"trouble"`         // harness trouble: leads to exit 2
	Sites      []int32          `json:"sites,omitempty"` // yield sites (statements of the instrumented code) executed at least once
}

func NewStats() *Stats {
	return &Stats{Faults: map[string]int64{}, Probes: map[string]int64{}, Known: map[string]int64{}}
}

func (s *Stats) Fault(k string)           { s.Faults[k]++ }
func (s *Stats) Probe(k string)           { s.Probes[k]++ }
func (s *Stats) ProbeN(k string, n int64) { s.Probes[k] += n }

// Sample keeps up to max samples.
func (s *Stats) Sample(max int, v interface{}) {
	if len(s.Samples) < max {
		s.Samples = append(s.Samples, v)
	}
}

func (s *Stats) Merge(o *Stats) {
	s.Evals += o.Evals
	s.NonTrivial += o.NonTrivial
	s.Steps += o.Steps
	for k, v := range o.Faults {
		s.Faults[k] += v
	}
	for k, v := range o.Probes {
		s.Probes[k] += v
	}
	for k, v := range o.Known {
		s.Known[k] += v
	}
	s.Violations = append(s.Violations, o.Violations...)
	s.Samples = append(s.Samples, o.Samples...)
	s.Hashes = append(s.Hashes, o.Hashes...)
	s.Hashes2 = append(s.Hashes2, o.Hashes2...)
	s.Trouble = append(s.Trouble, o.Trouble...)
	s.Sites = append(s.Sites, o.Sites...)
}

// WriteWorker writes stats as JSON plus the hash lists in binary.
func (s *Stats) WriteWorker(prefix string) error {
	b, err := json.Marshal(s)
	if err != nil {
		return err
	}
	if err := os.WriteFile(prefix+".json", b, 0o644); err != nil {
		return err
	}
	for i, hs := range [][]uint64{s.Hashes, s.Hashes2} {
		buf := make([]byte, 8*len(hs))
		for j, h := range hs {
			binary.LittleEndian.PutUint64(buf[8*j:], h)
		}
		if err := os.WriteFile(fmt.Sprintf("%s.h%d", prefix, i), buf, 0o644); err != nil {
			return err
		}
	}
	return nil
}

func ReadWorker(prefix string) (*Stats, error) {
	b, err := os.ReadFile(prefix + ".json")
	if err != nil {
		return nil, err
	}
	s := NewStats()
	if err := json.Unmarshal(b, s); err != nil {
		return nil, err
	}
	if s.Faults == nil {
		s.Faults = map[string]int64{}
	}
	if s.Probes == nil {
		s.Probes = map[string]int64{}
	}
	if s.Known == nil {
		s.Known = map[string]int64{}
	}
	for i := 0; i < 2; i++ {
		buf, err := os.ReadFile(fmt.Sprintf("%s.h%d", prefix, i))
		if err != nil {
			return nil, err
		}
		hs := make([]uint64, len(buf)/8)
		for j := range hs {
			hs[j] = binary.LittleEndian.Uint64(buf[8*j:])
		}
		if i == 0 {
			s.Hashes = hs
		} else {
			s.Hashes2 = hs
		}
	}
	return s, nil
}

// Distinct counts distinct values.
func Distinct(h []uint64) int64 {
	if len(h) == 0 {
		return 0
	}
	c := append([]uint64{}, h...)
	sort.Slice(c, func(i, j int) bool { return c[i] < c[j] })
	n := int64(1)
	for i := 1; i < len(c); i++ {
		if c[i] != c[i-1] {
			n++
		}
	}
	return n
}

// Finding is one line of the known-findings file.
type Finding struct {
	Status   string // "known" or "fixed"
	Property string
	Sig      string // for known: signature prefix to match; for fixed: commit
	What     string
}

// LoadFindings parses /verif/known_findings.txt. Lines:
//
//	known: property=<id> sig=<signature-without-spaces> <what fails>
//	fixed: property=<id> <commit> <what failed>
//
// Only "known" lines ever suppress anything.
func LoadFindings(path string) ([]Finding, error) {
	f, err := os.Open(path)
	if err != nil {
		if os.IsNotExist(err) {
			return nil, nil
		}
		return nil, err
	}
	defer f.Close()
	var out []Finding
	sc := bufio.NewScanner(f)
	for sc.Scan() {
		line := strings.TrimSpace(sc.Text())
		if line == "" || strings.HasPrefix(line, "#") {
			continue
		}
		var fd Finding
		switch {
		case strings.HasPrefix(line, "known:"):
			fd.Status = "known"
			line = strings.TrimSpace(strings.TrimPrefix(line, "known:"))
		case strings.HasPrefix(line, "fixed:"):
			fd.Status = "fixed"
			line = strings.TrimSpace(strings.TrimPrefix(line, "fixed:"))
		default:
			return nil, fmt.Errorf("known findings: cannot parse %q", line)
		}
		fs := strings.Fields(line)
		if len(fs) < 2 || !strings.HasPrefix(fs[0], "property=") {
			return nil, fmt.Errorf("known findings: cannot parse %q", line)
		}
		fd.Property = strings.TrimPrefix(fs[0], "property=")
		if fd.Status == "known" {
			if !strings.HasPrefix(fs[1], "sig=") {
				return nil, fmt.Errorf("known findings: missing sig= in %q", line)
			}
			fd.Sig = strings.TrimPrefix(fs[1], "sig=")
		} else {
			fd.Sig = fs[1]
		}
		fd.What = strings.Join(fs[2:], " ")
		out = append(out, fd)
	}
	return out, sc.Err()
}

// MatchKnown returns the known finding whose signature equals sig exactly.
func MatchKnown(fs []Finding, property, sig string) *Finding {
	for i := range fs {
		if fs[i].Status == "known" && fs[i].Property == property && fs[i].Sig == sig {
			return &fs[i]
		}
	}
	return nil
}

// Evidence is the file written per check run (EVIDENCE.schema.json).
type Evidence struct {
	PropertyID  string                 `json:"property_id"`
	Tier        string                 `json:"tier"`
	Seed        int64                  `json:"seed"`
	Level       string                 `json:"level"`
	Coverage    map[string]interface{} `json:"coverage"`
	Assumptions []string               `json:"assumptions"`
	WallS       float64                `json:"wall_s"`
	Violations  int                    `json:"violations"`
}

func (e *Evidence) Write(path string) error {
	b, err := json.MarshalIndent(e, "", " ")
	if err != nil {
		return err
	}
	tmp := path + ".tmp"
	if err := os.WriteFile(tmp, append(b, '\n'), 0o644); err != nil {
		return err
	}
	return os.Rename(tmp, path)
}

// EnvNames: the process-environment seam. check.sh lists the environment variables the code under test reads
// (string literals passed to os.Getenv / os.LookupEnv in its non-test sources) in VERIF_ENVNAMES; none at the pinned
// commit. The simulators set a seeded subset of them around a share of their cases, recorded in the case.
func EnvNames() []string {
	var out []string
	for _, n := range strings.Split(os.Getenv("VERIF_ENVNAMES"), ",") {
		if n = strings.TrimSpace(n); n != "" {
			out = append(out, n)
		}
	}
	sort.Strings(out)
	return out
}

// DrawEnv picks, from h (any deterministic hash of the case's position), the environment of a case: nil for three
// cases in four and when the code reads no variables.
func DrawEnv(names []string, h uint64) map[string]string {
	if len(names) == 0 || h%4 != 0 {
		return nil
	}
	h /= 4
	vals := []string{"1", "true", "0", "", "2", "debug", "on", "yes", "all", "x"}
	env := map[string]string{}
	for i, n := range names {
		if len(names) == 1 || (h>>uint(i%16))&1 == 1 {
			env[n] = vals[(h/7+uint64(i))%uint64(len(vals))]
		}
	}
	return env
}

// ApplyEnv sets the variables and returns the function that restores what was there before.
func ApplyEnv(env map[string]string) func() {
	if len(env) == 0 {
		return func() {}
	}
	type old struct {
		v  string
		ok bool
	}
	prev := map[string]old{}
	for k, v := range env {
		pv, ok := os.LookupEnv(k)
		prev[k] = old{pv, ok}
		os.Setenv(k, v)
	}
	return func() {
		for k, o := range prev {
			if o.ok {
				os.Setenv(k, o.v)
			} else {
				os.Unsetenv(k)
			}
		}
	}
}

// DrawClock picks the clock jumps of a case (nanoseconds; the k-th call or load of the case is preceded by jump
// k mod len): nil for two cases in three. Only used when the tree under test reads the clock at all.
func DrawClock(h uint64) []int64 {
	if h%3 != 0 {
		return nil
	}
	h /= 3
	const ms, s = int64(1e6), int64(1e9)
	vals := []int64{0, ms, 999 * ms, s, 59 * s, 61 * s, 3601 * s, 86401 * s, 31 * 86400 * s, 366 * 86400 * s, 5 * s, 301 * s}
	n := 1 + int(h%4)
	out := make([]int64, n)
	for i := range out {
		h = h*6364136223846793005 + 1442695040888963407
		out[i] = vals[(h>>33)%uint64(len(vals))]
	}
	return out
}

// Fast-stop (development aid for regression runs over many broken trees; never set by the registered commands): when
// VERIF_FAST_FILE names a path, a worker that has recorded a violation creates that file, and every worker stops at
// the next opportunity once it exists - the driver then confirms, minimises and reports as usual.
var fastFile = os.Getenv("VERIF_FAST_FILE")
var fastTick int

func FastStopSignal() {
	if fastFile != "" {
		if f, err := os.Create(fastFile); err == nil {
			f.Close()
		}
	}
}

func FastStopRequested() bool {
	if fastFile == "" {
		return false
	}
	fastTick++
	if fastTick%32 != 0 {
		return false
	}
	_, err := os.Stat(fastFile)
	return err == nil
}
