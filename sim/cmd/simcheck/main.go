// simcheck is the batch driver and worker of the simulator.
//
//	simcheck run    -prop C18 -tier quick -seed 1 -verif /verif -repo <scratch copy of /repo>
//	simcheck worker ... (spawned by run)
//	simcheck exec   -prop C18 < case.json     (re-executes one case in a fresh process)
//	simcheck replay -file replay.json -verif /verif -repo <copy>
//
// Exit codes: 0 property held on everything explored (known findings are listed, not failed);
// 1 with a "VIOLATION property=<id> replay=<path>" line; 2 harness trouble (never a verdict).
package main

import (
	"bytes"
	"encoding/binary"
	"encoding/json"
	"flag"
	"fmt"
	"os"
	"os/exec"
	"path/filepath"
	"runtime"
	"runtime/pprof"
	"sort"
	"strings"
	"sync/atomic"
	"time"

	"github.com/advancedclimatesystems/gonnx/verifsim"

	"verifsim/callsim"
	"verifsim/evid"
)

type engine interface {
	// Worker runs one worker's share.
	Worker(c workerCfg) *evid.Stats
	// Exec re-executes one recorded case and returns the violation it exhibits, if any.
	Exec(prop string, raw json.RawMessage, c workerCfg) (*evid.Violation, error)
	// Minimise shrinks a violating case; still(raw) re-executes a candidate in a fresh process and
	// reports whether the same signature persists.
	Minimise(prop string, v evid.Violation, still func(json.RawMessage) bool) (json.RawMessage, []string)
	// Meta describes the check for the evidence file.
	Meta(prop, tier string) meta
}

type workerCfg struct {
	Prop, Tier string
	Seed       uint64
	W, NW      int
	Budget     time.Duration
	Repo       string
	Scratch    string
	Verif      string
	Known      []evid.Finding
	RaceBin    string
	RaceBudget time.Duration
	Journal    string
	EmitAt     int64
	EmitOut    string
	StopAt     int64
}

type meta struct {
	Level       string
	Rule        string
	Assumptions []string
	Real, Stub  []string
	Exhaustive  string // description of what was enumerated completely, "" if nothing
	StepName    string
	Extra       map[string]interface{}
}

var engines = map[string]engine{}

func die2(format string, a ...interface{}) {
	fmt.Fprintf(os.Stderr, "HARNESS-TROUBLE: "+format+"\n", a...)
	os.Exit(2)
}

func main() {
	if len(os.Args) < 2 {
		die2("usage: simcheck run|worker|exec|replay ...")
	}
	cmd := os.Args[1]
	fs := flag.NewFlagSet(cmd, flag.ExitOnError)
	prop := fs.String("prop", "", "property id")
	tier := fs.String("tier", "quick", "quick|thorough")
	seed := fs.Uint64("seed", 1, "VERIF_SEED")
	verif := fs.String("verif", "/verif", "verification directory")
	repo := fs.String("repo", "/repo", "copy of the repository the binary was built from")
	scratch := fs.String("scratch", os.TempDir(), "scratch directory")
	nw := fs.Int("workers", 16, "worker processes")
	w := fs.Int("w", 0, "worker index")
	out := fs.String("out", "", "worker output prefix")
	budget := fs.Duration("budget", 0, "time budget of the seeded-search part (0 = tier default)")
	file := fs.String("file", "", "replay file")
	noEvidence := fs.Bool("no-evidence", false, "do not write the evidence file (development sweeps)")
	raceBin := fs.String("racebin", "", "simcheck built with -race against the un-instrumented copy (C17 race tier)")
	raceBudget := fs.Duration("race-budget", 0, "time budget of the race tier (0 = tier default)")
	journal := fs.String("journal", "", "worker: file receiving the number of the case about to run")
	emitAt := fs.Int64("emit-at", -1, "worker: regenerate the case stream and write case number N to -emit-out instead of executing")
	emitOut := fs.String("emit-out", "", "see -emit-at")
	fs.Parse(os.Args[2:])

	known, err := evid.LoadFindings(filepath.Join(*verif, "known_findings.txt"))
	if err != nil {
		die2("%v", err)
	}
	cfg := workerCfg{Prop: *prop, Tier: *tier, Seed: *seed, W: *w, NW: *nw, Budget: *budget, Repo: *repo, Scratch: *scratch, Verif: *verif, Known: known, RaceBin: *raceBin, RaceBudget: *raceBudget, Journal: *journal, EmitAt: *emitAt, EmitOut: *emitOut}

	switch cmd {
	case "worker":
		eng := engines[*prop]
		if eng == nil {
			die2("no engine for %q", *prop)
		}
		if hp := os.Getenv("VERIF_HEAPPROF"); hp != "" {
			go func() {
				next := uint64(3 << 30)
				for {
					time.Sleep(2 * time.Second)
					var ms runtime.MemStats
					runtime.ReadMemStats(&ms)
					if ms.HeapInuse > next {
						if f, err := os.Create(fmt.Sprintf("%s.%d.at%dG", hp, *w, ms.HeapInuse>>30)); err == nil {
							pprof.WriteHeapProfile(f)
							f.Close()
						}
						next = ms.HeapInuse * 2
					}
				}
			}()
		}
		st := eng.Worker(cfg)
		if hp := os.Getenv("VERIF_HEAPPROF"); hp != "" {
			// development aid: where does a worker's memory go
			if f, err := os.Create(fmt.Sprintf("%s.%d", hp, *w)); err == nil {
				runtime.GC()
				pprof.WriteHeapProfile(f)
				f.Close()
			}
		}
		if err := st.WriteWorker(*out); err != nil {
			die2("%v", err)
		}
	case "exec":
		var in struct {
			Property string          `json:"property"`
			Case     json.RawMessage `json:"case"`
		}
		if err := json.NewDecoder(os.Stdin).Decode(&in); err != nil {
			die2("exec: %v", err)
		}
		eng := engines[in.Property]
		if eng == nil {
			die2("no engine for %q", in.Property)
		}
		cfg.Prop = in.Property
		var v *evid.Violation
		var err error
		if h := historyOf(in.Case); h != nil {
			// re-execute worker h.W's whole stream up to case h.Seq in this fresh process
			hc := cfg
			hc.Prop, hc.Tier, hc.Seed, hc.W, hc.NW, hc.StopAt, hc.Budget = in.Property, h.Tier, h.Seed, h.W, h.NW, h.Seq+1, 24*time.Hour
			hc.Journal, hc.EmitOut = "", ""
			st := eng.Worker(hc)
			for i := range st.Violations {
				if st.Violations[i].Seq == h.Seq {
					vv := st.Violations[i]
					vv.Case = in.Case
					v = &vv
					break
				}
			}
		} else if isRaceCase(in.Case) {
			v, err = callsim.RaceExec(in.Case, cfg.Repo)
		} else {
			v, err = eng.Exec(in.Property, in.Case, cfg)
		}
		if err != nil {
			die2("exec: %v", err)
		}
		res := map[string]interface{}{"violation": v != nil}
		if v != nil {
			res["signature"] = v.Signature
			res["what"] = v.What
		}
		json.NewEncoder(os.Stdout).Encode(res)
	case "raceworker":
		st := callsim.RaceWorker(callsim.Config{Prop: "C17", Tier: *tier, Seed: *seed, W: *w, NW: *nw, Deadline: time.Now().Add(*budget), RepoDir: *repo, Known: known, Journal: *journal})
		if err := st.WriteWorker(*out); err != nil {
			die2("%v", err)
		}
	case "racerun":
		nrep := 0
		worlds, calls := callsim.RaceRun(*seed, int64(*w), int64(*nw), *repo, func(l string) { nrep++; fmt.Println("VALUE-DIFFERENCE:", l) })
		fmt.Printf("racerun: %d worlds, %d calls, %d value differences\n", worlds, calls, nrep)
	case "refcall":
		if err := callsim.RefCall(os.Stdin, os.Stdout); err != nil {
			die2("refcall: %v", err)
		}
	case "digest":
		callsim.Digest17(*seed, int64(*w), int64(*nw), *repo, func(l string) { fmt.Println(l) })
	case "corpus":
		callsim.CorpusStats(*repo, 12)
	case "replay":
		os.Exit(replay(*file, cfg))
	case "run":
		os.Exit(run(cfg, *noEvidence))
	default:
		die2("unknown command %q", cmd)
	}
}

// execFresh re-executes a case in a fresh process and returns the signature it exhibits ("" if none).
func execFresh(prop string, raw json.RawMessage, cfg workerCfg) (sig, what string, err error) {
	if isRaceCase(raw) {
		// A race-tier case runs free: whether the two accesses meet is up to the operating system's scheduler, and a
		// race that needs a cold process (first use of a lazily built table) gets exactly one chance per process. The
		// detector has no false positives, so any of several fresh processes showing it is a reproduction.
		for try := 0; try < 12; try++ {
			sig, what, err = execFreshOnce(prop, raw, cfg)
			if err != nil || sig != "" {
				return sig, what, err
			}
		}
		return "", "", nil
	}
	return execFreshOnce(prop, raw, cfg)
}

func execFreshOnce(prop string, raw json.RawMessage, cfg workerCfg) (sig, what string, err error) {
	self, _ := os.Executable()
	in, _ := json.Marshal(map[string]interface{}{"property": prop, "case": raw})
	repoDir := cfg.Repo
	var env []string
	if isRaceCase(raw) {
		if cfg.RaceBin == "" {
			return "", "", fmt.Errorf("race-tier case needs -racebin")
		}
		self = cfg.RaceBin
		env = append(os.Environ(), fmt.Sprintf("GORACE=log_path=%s halt_on_error=0 exitcode=0", filepath.Join(cfg.Scratch, fmt.Sprintf("race-exec-%d", time.Now().UnixNano()))))
	}
	if env == nil {
		// one P and no garbage collection: sync.Pool (per-P caches, emptied by the GC) then behaves the same way every
		// time, so a violation that depends on what a pool holds replays as reliably as the code allows
		env = append(os.Environ(), "GOMAXPROCS=1", "GOGC=off", "GOMEMLIMIT=6GiB")
	}
	cmd := exec.Command(self, "exec", "-verif", cfg.Verif, "-repo", repoDir, "-scratch", cfg.Scratch)
	cmd.Env = env
	cmd.Stdin = bytes.NewReader(in)
	var so, se bytes.Buffer
	cmd.Stdout = &so
	cmd.Stderr = &se
	done := make(chan error, 1)
	if err := cmd.Start(); err != nil {
		return "", "", err
	}
	go func() { done <- cmd.Wait() }()
	select {
	case err := <-done:
		if err != nil {
			if (strings.Contains(se.String(), "fatal error:") || strings.Contains(se.String(), "\npanic: ") || strings.HasPrefix(se.String(), "panic: ")) && !strings.Contains(se.String(), "HARNESS-TROUBLE") {
				return "process-crash", "re-executing the case in a fresh process kills it: " + fatalLine(se.String()), nil
			}
			return "", "", fmt.Errorf("exec failed: %v: %s", err, tail(se.String(), 2000))
		}
	case <-time.After(300*time.Second + 3*cfg.Budget):
		cmd.Process.Kill()
		return "", "", fmt.Errorf("exec watchdog expired")
	}
	var res struct {
		Violation bool   `json:"violation"`
		Signature string `json:"signature"`
		What      string `json:"what"`
	}
	if err := json.Unmarshal(so.Bytes(), &res); err != nil {
		return "", "", fmt.Errorf("exec output: %v: %q", err, tail(so.String(), 500))
	}
	if !res.Violation {
		return "", "", nil
	}
	return res.Signature, res.What, nil
}

func tail(s string, n int) string {
	if len(s) > n {
		return s[len(s)-n:]
	}
	return s
}

type replayFile struct {
	Property   string          `json:"property"`
	Seed       uint64          `json:"seed"`
	Tier       string          `json:"tier"`
	Signature  string          `json:"signature"`
	What       string          `json:"what"`
	Minimised  bool            `json:"minimised"`
	MinLog     []string        `json:"minimisation_log,omitempty"`
	Case       json.RawMessage `json:"case"`
	Original   json.RawMessage `json:"original_case,omitempty"`
	HowToRerun string          `json:"how_to_rerun"`
}

func replay(path string, cfg workerCfg) int {
	b, err := os.ReadFile(path)
	if err != nil {
		die2("replay: %v", err)
	}
	var rf replayFile
	if err := json.Unmarshal(b, &rf); err != nil {
		die2("replay: %v", err)
	}
	sig, what, err := execFresh(rf.Property, rf.Case, cfg)
	if err != nil {
		die2("replay: %v", err)
	}
	if sig == "" {
		fmt.Printf("replay: no violation reproduced (recorded signature %q)\n", rf.Signature)
		return 0
	}
	fmt.Printf("replay: signature=%q recorded=%q same=%v\n%s\n", sig, rf.Signature, sig == rf.Signature, what)
	if k := evid.MatchKnown(cfg.Known, rf.Property, sig); k != nil {
		fmt.Printf("KNOWN-FINDING: property=%s %s\n", rf.Property, k.What)
		return 0
	}
	fmt.Printf("VIOLATION property=%s replay=%s\n", rf.Property, path)
	return 1
}

func tierBudget(prop, tier string) time.Duration {
	if tier == "thorough" {
		return 10 * time.Minute
	}
	return 45 * time.Second
}

func run(cfg workerCfg, noEvidence bool) int {
	eng := engines[cfg.Prop]
	if eng == nil {
		die2("no engine for %q", cfg.Prop)
	}
	if cfg.Budget == 0 {
		cfg.Budget = tierBudget(cfg.Prop, cfg.Tier)
	}
	start := time.Now()
	fmt.Printf("VERIF_SEED=%d property=%s tier=%s workers=%d budget=%v\n", cfg.Seed, cfg.Prop, cfg.Tier, cfg.NW, cfg.Budget)
	self, _ := os.Executable()
	type proc struct {
		cmd *exec.Cmd
		se  *bytes.Buffer
		pre string
	}
	var procs []proc
	for w := 0; w < cfg.NW; w++ {
		pre := filepath.Join(cfg.Scratch, fmt.Sprintf("worker-%s-%d", cfg.Prop, w))
		cmd := exec.Command(self, "worker", "-prop", cfg.Prop, "-tier", cfg.Tier, "-seed", fmt.Sprint(cfg.Seed),
			"-verif", cfg.Verif, "-repo", cfg.Repo, "-scratch", cfg.Scratch, "-workers", fmt.Sprint(cfg.NW), "-w", fmt.Sprint(w),
			"-out", pre, "-budget", cfg.Budget.String(), "-journal", pre+".journal")
		se := &bytes.Buffer{}
		cmd.Stderr = se
		cmd.Stdout = se
		// GOMEMLIMIT: a soft ceiling, so that one transient multi-gigabyte result does not raise the collector's target
		// to five times that for the rest of the run
		cmd.Env = append(os.Environ(), "GOMAXPROCS=1", "GOGC=400", "GOMEMLIMIT=1GiB")
		if os.Getenv("VERIF_FAST") != "" {
			cmd.Env = append(cmd.Env, "VERIF_FAST_FILE="+filepath.Join(cfg.Scratch, "stop-now"))
		}
		if err := cmd.Start(); err != nil {
			die2("start worker: %v", err)
		}
		procs = append(procs, proc{cmd, se, pre})
	}
	// watchdog: the exhaustive part is not budgeted, so allow generously
	wd := cfg.Budget*3 + 20*time.Minute
	timer := time.AfterFunc(wd, func() {
		for _, p := range procs {
			p.cmd.Process.Kill()
		}
	})
	total := evid.NewStats()
	trouble := false
	for i, p := range procs {
		if err := p.cmd.Wait(); err != nil {
			// A worker killed by a fatal runtime error of the code under test (out of memory on a forged size,
			// concurrent map writes, stack exhaustion) is a finding, not harness trouble - if the case that killed it
			// can be regenerated from the journal and kills a fresh process too.
			if v := crashCase(cfg, i, p.pre, p.se.String()); v != nil {
				total.Violations = append(total.Violations, *v)
				continue
			}
			fmt.Fprintf(os.Stderr, "HARNESS-TROUBLE: worker %d: %v\n%s\n", i, err, tail(p.se.String(), 4000))
			trouble = true
			continue
		}
		st, err := evid.ReadWorker(p.pre)
		if err != nil {
			fmt.Fprintf(os.Stderr, "HARNESS-TROUBLE: worker %d output: %v\n", i, err)
			trouble = true
			continue
		}
		total.Merge(st)
	}
	timer.Stop()
	if cfg.Prop == "C17" && cfg.RaceBin != "" {
		// auxiliary race tier: the same seeded worlds with free-running goroutines in a -race build
		rb := cfg.RaceBudget
		if rb == 0 {
			rb = 12 * time.Second
			if cfg.Tier == "thorough" {
				rb = 2 * time.Minute
			}
		}
		var rprocs []proc
		for w := 0; w < cfg.NW; w++ {
			pre := filepath.Join(cfg.Scratch, fmt.Sprintf("raceworker-%d", w))
			cmd := exec.Command(cfg.RaceBin, "raceworker", "-seed", fmt.Sprint(cfg.Seed), "-tier", cfg.Tier, "-verif", cfg.Verif, "-repo", cfg.Repo,
				"-scratch", cfg.Scratch, "-workers", fmt.Sprint(cfg.NW), "-w", fmt.Sprint(w), "-out", pre, "-budget", rb.String(), "-journal", pre+".journal")
			se := &bytes.Buffer{}
			cmd.Stderr, cmd.Stdout = se, se
			cmd.Env = append(os.Environ(), "GOMAXPROCS=4", fmt.Sprintf("GORACE=log_path=%s halt_on_error=0 exitcode=0", filepath.Join(cfg.Scratch, fmt.Sprintf("racelog-%d", w))))
			if err := cmd.Start(); err != nil {
				die2("start race worker: %v", err)
			}
			rprocs = append(rprocs, proc{cmd, se, pre})
		}
		var raceTimedOut int32
		rtimer := time.AfterFunc(rb*3+5*time.Minute, func() {
			atomic.StoreInt32(&raceTimedOut, 1)
			for _, p := range rprocs {
				p.cmd.Process.Kill()
			}
		})
		for i, p := range rprocs {
			if err := p.cmd.Wait(); err != nil {
				if strings.Contains(p.se.String(), "fatal error:") {
					if jb, jerr := os.ReadFile(p.pre + ".journal"); jerr == nil && len(jb) >= 8 {
						var rcase callsim.RaceCase
						rcase.Race.Seed, rcase.Race.Index, rcase.Race.Repeat = cfg.Seed, int64(binary.LittleEndian.Uint64(jb)), 80
						rcase.Race.Report = tail(p.se.String(), 3000)
						raw, _ := json.Marshal(&rcase)
						total.Violations = append(total.Violations, evid.Violation{Property: cfg.Prop, Signature: "process-crash", What: "free-running concurrent Runs killed the process: " + fatalLine(p.se.String()), Case: raw})
						continue
					}
				}
				if atomic.LoadInt32(&raceTimedOut) == 1 && strings.Contains(err.Error(), "killed") {
					// The race tier is auxiliary: free-running goroutines under the race detector, outside the simulation and
					// unable to raise a false alarm. A worker that the watchdog stopped (a loaded machine, one very slow
					// world) leaves that tier incomplete; the deterministic simulation above has decided the property.
					fmt.Fprintf(os.Stderr, "NOTE: race-tier worker %d was stopped by its watchdog; the auxiliary race tier is incomplete for this run\n", i)
					total.Probe("race_tier_workers_stopped_by_watchdog")
					continue
				}
				fmt.Fprintf(os.Stderr, "HARNESS-TROUBLE: race worker %d: %v\n%s\n", i, err, tail(p.se.String(), 3000))
				trouble = true
				continue
			}
			st, err := evid.ReadWorker(p.pre)
			if err != nil {
				fmt.Fprintf(os.Stderr, "HARNESS-TROUBLE: race worker %d output: %v\n", i, err)
				trouble = true
				continue
			}
			total.Merge(st)
		}
		rtimer.Stop()
	}
	for _, t := range total.Trouble {
		fmt.Fprintf(os.Stderr, "HARNESS-TROUBLE: %s\n", t)
		trouble = true
	}
	wall := time.Since(start).Seconds()

	// known findings
	var ksigs []string
	for s := range total.Known {
		ksigs = append(ksigs, s)
	}
	sort.Strings(ksigs)
	for _, s := range ksigs {
		k := evid.MatchKnown(cfg.Known, cfg.Prop, s)
		fmt.Printf("KNOWN-FINDING: property=%s %s (sig=%s, %d occurrences)\n", cfg.Prop, k.What, s, total.Known[s])
	}

	// violations: one report per signature
	bySig := map[string]evid.Violation{}
	var sigs []string
	for _, v := range total.Violations {
		if _, ok := bySig[v.Signature]; !ok {
			bySig[v.Signature] = v
			sigs = append(sigs, v.Signature)
		}
	}
	sort.Strings(sigs)
	nviol := 0
	notReproduced := 0
	os.MkdirAll(filepath.Join(cfg.Verif, "replays"), 0o755)
	for _, s := range sigs {
		v := bySig[s]
		// 1. confirm in a fresh process
		sig, _, err := execFresh(cfg.Prop, v.Case, cfg)
		if err != nil {
			fmt.Fprintf(os.Stderr, "HARNESS-TROUBLE: confirming %q: %v\n", s, err)
			trouble = true
			continue
		}
		if sig != s {
			// state that outlives Models (a package-level cache, a pooled buffer) can make a violation depend on what
			// the worker process did before: retry with the world executed twice beforehand in the same fresh process
			if warm := withWarm(v.Case, 2); warm != nil {
				if sig2, _, err2 := execFresh(cfg.Prop, warm, cfg); err2 == nil && sig2 == s {
					v.Case = warm
					sig = sig2
				}
			}
		}
		if sig == s && s == "process-crash" && !isRaceCase(v.Case) && (cfg.Prop == "C02" || cfg.Prop == "C06" || cfg.Prop == "C17") {
			// these properties compare a call with the same call executed alone: a crash that also happens alone is
			// independent of history and interleaving and is not theirs to report
			if n, err := callsim.CrashesAlone(v.Case); err == nil && n > 0 {
				fmt.Fprintf(os.Stderr, "NOT-A-VERDICT: the code under test kills the process (%s), but %d call(s) of that world do so when executed alone on a fresh Model in a fresh process too; %s is about history and interleaving and says nothing about it\n", v.What, n, cfg.Prop)
				trouble = true
				continue
			}
		}
		if sig != s && !isRaceCase(v.Case) {
			// last resort: the violation may depend on everything the worker did before (state that outlives Models and
			// is never evicted). The worker's stream is a pure function of (seed, tier, worker index), so a fresh process
			// can re-execute it up to this case.
			hraw, _ := json.Marshal(map[string]interface{}{"history": historyCase{Tier: cfg.Tier, Seed: cfg.Seed, W: v.W, NW: cfg.NW, Seq: v.Seq, Signature: s,
				Note: "replay re-executes the whole case stream of this worker up to case seq in a fresh process; it needs the same /verif revision"}})
			if sig3, _, err3 := execFresh(cfg.Prop, hraw, cfg); err3 == nil && sig3 == s {
				v.Case = hraw
				v.What += " [needs the worker's whole history: reproduced by re-executing its case stream in a fresh process]"
				sig = sig3
			}
		}
		if sig != s {
			fmt.Fprintf(os.Stderr, "NOT-REPRODUCED: violation %q seen by a worker did not reproduce in a fresh process (got %q); not reported as a verdict\n  what the worker saw: %s\n", s, sig, tail(v.What, 1500))
			notReproduced++
			continue
		}
		// 2. minimise
		still := func(raw json.RawMessage) bool {
			g, _, err := execFresh(cfg.Prop, raw, cfg)
			return err == nil && g == s
		}
		minCase, mlog := eng.Minimise(cfg.Prop, v, still)
		rf := replayFile{Property: cfg.Prop, Seed: cfg.Seed, Tier: cfg.Tier, Signature: s, What: v.What, Case: v.Case}
		if minCase != nil {
			rf.Minimised = true
			rf.MinLog = mlog
			rf.Original = v.Case
			rf.Case = minCase
		}
		name := fmt.Sprintf("%s-seed%d-%s.json", cfg.Prop, cfg.Seed, sanitize(s))
		path := filepath.Join(cfg.Verif, "replays", name)
		rf.HowToRerun = fmt.Sprintf("cd %s && ./check.sh --replay %s", cfg.Verif, path)
		b, _ := json.MarshalIndent(rf, "", " ")
		if err := os.WriteFile(path, b, 0o644); err != nil {
			die2("write replay: %v", err)
		}
		fmt.Printf("violation: %s\n  %s\n", s, v.What)
		fmt.Printf("VIOLATION property=%s replay=%s\n", cfg.Prop, path)
		nviol++
	}

	if !noEvidence {
		writeEvidence(cfg, eng, total, wall, nviol)
	}
	fmt.Printf("summary: property=%s evaluations=%d nontrivial=%d distinct_nontrivial=%d violations=%d known=%d wall=%.1fs\n",
		cfg.Prop, total.Evals, total.NonTrivial, evid.Distinct(total.Hashes), nviol, len(ksigs), wall)
	if nviol > 0 {
		return 1
	}
	if notReproduced > 0 {
		fmt.Fprintf(os.Stderr, "HARNESS-TROUBLE: %d violation signature(s) were observed by workers but none reproduced in a fresh process\n", notReproduced)
		return 2
	}
	if trouble {
		return 2
	}
	return 0
}

func sanitize(s string) string {
	var b strings.Builder
	for _, r := range s {
		switch {
		case r >= 'a' && r <= 'z', r >= 'A' && r <= 'Z', r >= '0' && r <= '9', r == '-', r == '_':
			b.WriteRune(r)
		default:
			b.WriteByte('_')
		}
	}
	o := b.String()
	if len(o) > 80 {
		o = o[:80]
	}
	return o
}

func writeEvidence(cfg workerCfg, eng engine, st *evid.Stats, wall float64, nviol int) {
	m := eng.Meta(cfg.Prop, cfg.Tier)
	cov := map[string]interface{}{
		"evaluations":         st.Evals,
		"nontrivial":          st.NonTrivial,
		"distinct_nontrivial": evid.Distinct(st.Hashes),
		"rule":                m.Rule,
		"samples":             st.Samples,
		"faults_fired":        st.Faults,
		"probes":              st.Probes,
		"runs_per_hour":       int64(float64(st.Evals) / wall * 3600),
		"known_findings_hit":  st.Known,
		"real_components":     m.Real,
		"stub_components":     m.Stub,
		"workers":             cfg.NW,
		"budget_s":            cfg.Budget.Seconds(),
	}
	if st.Steps > 0 {
		cov["simulated_steps"] = st.Steps
		cov["simulated_time_note"] = "gonnx has no clock or timer; simulated time is counted in scheduler steps (yield points executed)"
	} else {
		switch cfg.Prop {
		case "C02", "C06":
			cov["simulated_time_note"] = "gonnx has no clock or timer; this check executes call histories serially (no scheduler steps): a run is one world, i.e. one interleaved history of <= 10-20 calls with its call faults"
		default:
			cov["simulated_time_note"] = "no clock, timer or scheduler in this engine; a run is one publish-damage-read round trip"
		}
	}
	if len(st.Hashes2) > 0 {
		cov["distinct_interleavings"] = evid.Distinct(st.Hashes2)
	}
	if len(st.Sites) > 0 && verifsim.NSites > 0 {
		seen := make([]bool, verifsim.NSites)
		n := 0
		for _, i := range st.Sites {
			if int(i) < len(seen) && !seen[i] {
				seen[i] = true
				n++
			}
		}
		var missed []string
		for i, v := range seen {
			if !v && i < len(verifsim.SiteNames) {
				missed = append(missed, verifsim.SiteNames[i])
			}
		}
		cov["statements_instrumented"] = verifsim.NSites
		cov["statements_executed_under_simulation"] = n
		cov["statements_never_executed"] = missed
	}
	if m.Exhaustive != "" {
		cov["exhaustive_part"] = m.Exhaustive
	}
	for k, v := range m.Extra {
		cov[k] = v
	}
	if len(st.Samples) == 0 {
		cov["samples"] = []interface{}{"(no sample recorded)"}
	}
	ev := evid.Evidence{PropertyID: cfg.Prop, Tier: cfg.Tier, Seed: int64(cfg.Seed), Level: m.Level, Coverage: cov, Assumptions: m.Assumptions, WallS: wall, Violations: nviol}
	os.MkdirAll(filepath.Join(cfg.Verif, "evidence"), 0o755)
	if err := ev.Write(filepath.Join(cfg.Verif, "evidence", cfg.Prop+".json")); err != nil {
		die2("evidence: %v", err)
	}
}

// withWarm returns the case with its "warm" field set (call-simulator cases only).
func withWarm(raw json.RawMessage, n int) json.RawMessage {
	var m map[string]json.RawMessage
	if err := json.Unmarshal(raw, &m); err != nil {
		return nil
	}
	if _, ok := m["world"]; !ok {
		return nil
	}
	m["warm"] = json.RawMessage(fmt.Sprint(n))
	out, err := json.Marshal(m)
	if err != nil {
		return nil
	}
	return out
}

// isRaceCase: cases of the auxiliary race tier carry a "race" object instead of a world.
func isRaceCase(raw json.RawMessage) bool {
	var m map[string]json.RawMessage
	if err := json.Unmarshal(raw, &m); err != nil {
		return false
	}
	_, ok := m["race"]
	return ok
}

// fatalLine extracts the "fatal error: ..." line of a Go runtime abort.
func fatalLine(stderr string) string {
	for _, l := range strings.Split(stderr, "\n") {
		if strings.Contains(l, "fatal error:") || strings.HasPrefix(l, "panic: ") {
			return strings.TrimSpace(l)
		}
	}
	return "(no fatal error line)"
}

// crashContext: the first stack frames after the fatal line (for the report; not part of the signature).
func crashContext(stderr string) string {
	i := strings.Index(stderr, "fatal error:")
	if j := strings.Index(stderr, "panic: "); i < 0 || (j >= 0 && j < i) {
		i = j
	}
	if i < 0 {
		return ""
	}
	ctx := stderr[i:]
	if len(ctx) > 1200 {
		ctx = ctx[:1200]
	}
	return "\n" + ctx
}

// crashCase: worker w died. If it died of a Go fatal error, regenerate the case it was executing (the case
// stream is a pure function of seed, tier and worker index) and return it as a violation candidate; the usual
// fresh-process confirmation then decides whether it is reported.
func crashCase(cfg workerCfg, w int, pre, stderr string) *evid.Violation {
	// a Go fatal error, or a panic that nothing could recover: in a goroutine the library or gorgonia started, or in
	// the harness's own tensor construction once the process-wide tensor pool has been corrupted
	if !strings.Contains(stderr, "fatal error:") && !strings.Contains(stderr, "\npanic: ") && !strings.HasPrefix(stderr, "panic: ") {
		return nil
	}
	jb, err := os.ReadFile(pre + ".journal")
	if err != nil || len(jb) < 8 {
		return nil
	}
	seq := int64(binary.LittleEndian.Uint64(jb))
	self, _ := os.Executable()
	out := pre + ".emit"
	os.Remove(out)
	cmd := exec.Command(self, "worker", "-prop", cfg.Prop, "-tier", cfg.Tier, "-seed", fmt.Sprint(cfg.Seed), "-verif", cfg.Verif, "-repo", cfg.Repo,
		"-scratch", cfg.Scratch, "-workers", fmt.Sprint(cfg.NW), "-w", fmt.Sprint(w), "-out", pre+".emitstats", "-budget", "1h", "-emit-at", fmt.Sprint(seq), "-emit-out", out)
	if err := cmd.Run(); err != nil {
		return nil
	}
	raw, err := os.ReadFile(out)
	if err != nil {
		return nil
	}
	return &evid.Violation{Property: cfg.Prop, Signature: "process-crash", What: "the worker executing this case was killed by the Go runtime: " + fatalLine(stderr) + crashContext(stderr), Case: raw, Seq: seq, W: w}
}

// historyCase: "re-execute worker W's case stream up to case Seq" (see the NOT-REPRODUCED fallback in run).
type historyCase struct {
	Tier      string `json:"tier"`
	Seed      uint64 `json:"seed"`
	W         int    `json:"w"`
	NW        int    `json:"nw"`
	Seq       int64  `json:"seq"`
	Signature string `json:"signature"`
	Note      string `json:"note,omitempty"`
}

func historyOf(raw json.RawMessage) *historyCase {
	var m struct {
		History *historyCase `json:"history"`
	}
	if err := json.Unmarshal(raw, &m); err != nil {
		return nil
	}
	return m.History
}
