package main

import (
	"encoding/json"
	"time"

	"verifsim/evid"
	"verifsim/mediumsim"
)

type mediumEngine struct{}

func init() {
	engines["C18"] = mediumEngine{}
	engines["C12"] = mediumEngine{}
}

func (mediumEngine) Worker(c workerCfg) *evid.Stats {
	return mediumsim.Worker(mediumsim.Config{Prop: c.Prop, Tier: c.Tier, Seed: c.Seed, W: c.W, NW: c.NW,
		Deadline: time.Now().Add(c.Budget), RepoDir: c.Repo, Scratch: c.Scratch, Known: c.Known,
		Journal: c.Journal, EmitAt: c.EmitAt, EmitOut: c.EmitOut, StopAt: c.StopAt})
}

func (mediumEngine) Exec(prop string, raw json.RawMessage, c workerCfg) (*evid.Violation, error) {
	return mediumsim.Exec(prop, raw, c.Scratch)
}

func (mediumEngine) Minimise(prop string, v evid.Violation, still func(json.RawMessage) bool) (json.RawMessage, []string) {
	if historyOf(v.Case) != nil {
		return nil, nil
	}
	return mediumsim.Minimise(prop, v, still)
}

func (mediumEngine) Meta(prop, tier string) meta {
	real := []string{"gonnx.NewModelFromBytes / NewModelFromFile / NewModelFromZipFile / NewModel", "onnx.TensorFromProto and every reader in onnx/graph_proto.go", "gonnx.ResolveOperatorGetter, opset13.GetOperator, Model.Run (unknown-operator and constant-only graphs)", "google.golang.org/protobuf Unmarshal", "archive/zip + io.ReadAll", "os.ReadFile on a real file in the scratch directory", "gorgonia tensor construction"}
	stub := []string{"publisher/encoder (harness model builder + proto.Marshal)", "the byte medium and its faults", "io.ReaderAt under archive/zip", "reference decoder refdec (independent of gonnx)"}
	if prop == "C18" {
		return meta{Level: "fault_enumeration",
			Rule:        "case = (reader, bytes on the medium after a fault plan). Enumerated completely: every truncation offset and every single-bit flip of every base model <= 4 KB (sample files incl. the git-LFS pointer, generated models); all byte strings of length 0..2; the opset grid (all pairs over 22 values, all 1 728 ordered triples over 12 boundary values); unknown operator names (case/padding/prefix/suffix variants, 33 patterns embedding an implemented name, near-misses of every implemented name) x node position and 11 graph contexts (output-name collisions, no outputs, only node ...); one-field-at-a-time structured perturbations of every initializer / value-info / node; extent-overflow tensors; sparse initializers (46 well-formed and damaged); archives with forged sizes and checksums; models wrapped in or replaced by other formats (gzip, tar, tar.gz, zip-as-bytes, magic numbers), cut and flipped; missing file and directory; node domains and node names around unknown operators (duplicates, nameless), operator names with code points whose case mappings change length or leave ASCII; fields nested 10^2..3*10^6 levels deep; every unknown-operator graph is Run three times and the worst answer judged. A seeded quarter of the cases runs with the environment variables the tree reads (scanned from its sources) set. Seeded: schema-driven messages built by protobuf reflection over every field of the ONNX schema; the single faults through the file and zip readers (strided in quick); damaged archives and failing reader regions under archive/zip; 1-4-fault combinations incl. torn v1/v2 updates until the budget ends. The medium preserves file modification times. non-trivial = the fault plan changed at least one byte the reader consumed, or the input is a generated adversarial one; distinct = by hash of (reader, bytes, reader fault).",
			Assumptions: []string{"refparse = protobuf Unmarshal into the repo's generated ONNX types decides what a damaged file declares (opset, operator names, initializers)", "operator names outside pinned-55 ∪ GetOpNames() count as not implemented", "oracle (iii) synthesises inputs from the declared signature; files whose declared inputs cannot be synthesised are only checked for 'no panic'", "Run panics on loadable-but-damaged graphs are outside C18 (only construction must not panic)"},
			Real:        real, Stub: stub,
			Exhaustive: "single truncation and single bit-flip spaces of all base files <= 4 KB through NewModelFromBytes; all byte strings of length <= 2; opset and operator-name grids; structured one-field perturbations"}
	}
	return meta{Level: "fault_enumeration",
		Rule:        "case = stored tensor (11 element types x typed/raw x rank 0..4 x value patterns incl. extremes, -0, signalling NaNs) held as initializer, as Constant value and (one-element tensors) as ConstantOfShape value, read fault-free and under every tensor-granularity fault (payload short/long by a byte or an element, emptied, halved; typed count +-1; each extent +-1, negated, zeroed, doubled; dims added/dropped; data_type replaced by every code -1..22), every unsupported data_type with each typed field populated, large tensors (4 097..65 537 elements), extents whose product or byte size wraps in 64-bit arithmetic, look-alike initializer pairs (identical payload bytes of 64 B..256 KiB under other dims / types / names), payload stored only in a typed field of another element type, initializers whose names collide under normalisation, initializers contradicted by graph.input / value_info / output declarations, model metadata (producer names and versions, ir_version, domain, metadata_props, doc strings), the same models handed over as caller-built messages through gonnx.NewModel (empty fields nil or empty non-nil), exhaustive truncation/bit-flip of small weight files (thorough: every pair of bit flips of the smallest ones), then seeded v1->v2 publish/torn-update sequences. Expected outcome comes from the independent decoder refdec: well-formed => loads and equals bit for bit, also when decoded a second time; malformed/unrepresentable => error; unspecified by ONNX => no panic and the same answer on every decode. non-trivial = fault-free round trip of a non-empty tensor, or damage inside the tensor/its header; distinct = by hash of (reader, bytes).",
		Assumptions: []string{"refdec encodes the ONNX TensorProto rules (typed field per element type, little-endian raw_data, element count = product of dims)", "cases ONNX leaves unspecified are judged only for 'no panic' and 'same answer on every decode': both encodings populated, another type's typed field populated next to the declared type's own payload, carrier values outside the narrow type's range, bool bytes other than 0/1, external data; an empty tensor may be refused but if decoded keeps its declared type and shape", "a refusal of a file whose initializers are all well-formed is a violation only if attributable to a weight (the tree's own TensorFromProto refuses it, or the same file with trivial initializers loads)", "weights are observed through the verif-tag accessor and through Run on node-free / Constant-only graphs"},
		Real:        real, Stub: stub,
		Exhaustive: "the type x encoding x rank x tensor-fault grid; single truncation and bit-flip spaces of the small weight-only and generated model files"}
}
