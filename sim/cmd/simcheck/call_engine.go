package main

import (
	"encoding/json"
	"time"

	"verifsim/callsim"
	"verifsim/evid"
)

type callEngine struct{}

func init() {
	engines["C02"] = callEngine{}
	engines["C06"] = callEngine{}
	engines["C17"] = callEngine{}
}

func (callEngine) Worker(c workerCfg) *evid.Stats {
	cfg := callsim.Config{Prop: c.Prop, Tier: c.Tier, Seed: c.Seed, W: c.W, NW: c.NW, Deadline: time.Now().Add(c.Budget), RepoDir: c.Repo, Known: c.Known, Journal: c.Journal, EmitAt: c.EmitAt, EmitOut: c.EmitOut, StopAt: c.StopAt}
	switch c.Prop {
	case "C02":
		return callsim.Worker02(cfg)
	case "C06":
		return callsim.Worker06(cfg)
	}
	return callsim.Worker17(cfg)
}

func (callEngine) Exec(prop string, raw json.RawMessage, c workerCfg) (*evid.Violation, error) {
	return callsim.Exec(prop, raw)
}

func (callEngine) Minimise(prop string, v evid.Violation, still func(json.RawMessage) bool) (json.RawMessage, []string) {
	if historyOf(v.Case) != nil {
		return nil, nil
	}
	if isRaceCase(v.Case) {
		return nil, nil
	}
	return callsim.Minimise(prop, v, still)
}

func (callEngine) Meta(prop, tier string) meta {
	real := []string{"gonnx.NewModelFromBytes, Model.Run, validateShapes, applyOp and the accessors", "all 55 operators of ops/opset13 and the helpers in ops/", "onnx.TensorFromProto (weights, Constant values)", "gorgonia tensor, gonum BLAS, protobuf"}
	stub := []string{"the callers (tasks) and their scripts", "operator failures/panics injected through the exported Model.GetOperator seam (proxy delegates to the real operator)", "model files written by the harness model builder"}
	switch prop {
	case "C02":
		return meta{Level: "exploration",
			Rule:        "case = world (1-3 model files, 1-3 tasks, <= 10 calls) + a serial interleaving of the tasks' calls. Calls: Run with fresh tensors, Run with the very same tensor objects again, Run with the same tensor objects after the caller overwrote their contents (buffer re-use), Run with an earlier call's outputs fed back (or its whole result map merged into the inputs), Run with one invalid input (incl. the nearest wrong element type holding real data), Run aborted by an injected operator error/panic at node k (before Init / before ValidateInputs / before Apply / after Apply), accessors, reload (also of a bit-flipped copy). After every call: outcome kind and every output bit for bit equal the same call alone on a freshly loaded Model; every caller tensor equals its pre-call snapshot; every weight equals its load-time snapshot; proto.Equal(model protobuf, load-time clone). Enumerated first: every operator template x every (operand, binding mode) pair x 3 fixed reuse patterns, and the 4 sample models x the patterns; then seeded worlds. non-trivial = a later Run on the same Model re-uses tensor objects, takes fed-back outputs, or follows a rejected/aborted call; distinct = hash of the whole case.",
			Assumptions: []string{"the reference is the same code run alone on a freshly loaded Model: numerical correctness of operators is not decided here", "a bad call carries exactly one invalid input so the expected outcome kind does not depend on map iteration order", "error messages are not compared, only ok/error/panic"},
			Real:        real, Stub: stub,
			Exhaustive: "operator template x operand x binding-mode x reuse-pattern product (one seeded instance each)"}
	case "C06":
		return meta{Level: "exploration",
			Rule:        "case = world of 1-2 RNN/GRU/LSTM models (every subset of B/P, linear_before_reset, activation lists, weights raw/typed/Constant) and 1-3 tasks each running 1-2 sessions: a sequence cut into 2-4 pieces, each piece a Run whose initial state inputs are the previous piece's Y_h/Y_c tensor objects, with other sessions' pieces, rejected calls, aborted calls, unrelated Runs and reloads on the same Model in between. Oracle: concat(Y pieces), final Y_h, final Y_c equal one whole-sequence Run on a fresh Model bit for bit; piece fails iff whole fails. Enumerated first: kind x 6 configurations x seq 2..6 x every cut (and every pair of cuts for seq 4-5). non-trivial = whole run succeeds and >= 2 pieces; distinct = hash of the case. Only the third sentence of C06 (splitting) is decided.",
			Assumptions: []string{"input and hidden sizes >= 2 (size 1 makes the operators fail whole and split alike on the pinned tree)", "the recurrence equations themselves (first two sentences of C06) are a pure function and are not decided"},
			Real:        real, Stub: stub,
			Exhaustive: "all single cut points for seq 2..6 and all cut pairs for seq 4..5, per operator kind and 6 drawn configurations"}
	}
	return meta{Level: "exploration",
		Rule:        "case = world (1-2 shared Models, 2-16 tasks with own input tensors, <= 4 calls each incl. invalid inputs, injected operator errors/panics, concurrent loads) + a schedule = explicit list of (task, k-th yield) -> next task over the instrumented copy of gonnx (a yield before every statement; map iteration order drawn from the seed). Policies: enumerated single preemption P(δ) for two callers on every operator template and small sample model, PCT(d<=5), random walk (p=1/2..1/1024), lockstep, serial. Oracle: every call's outcome kind and outputs equal, bit for bit, the same call alone on a fresh Model; concurrently loaded models have a quiet load's weights. non-trivial = two tasks were inside Run on the same Model at the same simulated time (a Run entered while another task is parked inside one, or a preemption taken then); distinct = hash of (world, schedule); distinct_interleavings = distinct schedule hashes.",
		Assumptions: []string{"interleavings are explored at statement granularity of gonnx and of six files of gorgonia.org/tensor (ap.go, dense.go, dense_matop.go, dense_linalg.go, defaultengine_linalg.go, api_matop.go: tensor headers, views, transposition, linear-algebra front end); all other dependency code (element loops, gonum, protobuf, gorgonia's pools) runs atomically between two yields", "critical sections (Lock..Unlock, sync.Once.Do) and functions using go/channels/select/WaitGroup/Cond are atomic to the simulated scheduler (fewer interleavings, never an impossible one)", "1 world in 200 is judged against references computed in brand-new OS processes, the others against a fresh Model in the same process", "auxiliary race tier (outside the deterministic family, probabilistic detection, no false positives): the same seeded worlds run with free-running goroutines in a -race build; any race report with a gonnx frame, or any result differing from the run-alone reference, is reported; its replay re-runs the world up to 80 times"},
		Extra:       map[string]interface{}{"race_tier_note": "probes race_tier_worlds / race_tier_calls / race_detector_reports count the auxiliary -race tier; everything else in this file is the deterministic simulation"},
		Real:        append(real, "instrumented copy of the four gonnx packages and of six files of gorgonia.org/tensor v0.9.24 (yield points are calls into a hook, no semantic change)"), Stub: append(stub, "the scheduler (baton passing between real goroutines)"),
		Exhaustive: "single-preemption schedules P(δ) over every yield of caller A (thorough) for two callers x one Run on each template/sample model"}
}
