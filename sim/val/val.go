// Package val holds the harness's own representation of a tensor value:
// element type, shape and one bit pattern per element in row-major logical
// order. Everything the simulator compares (caller tensors before/after a
// call, weights, outputs) is reduced to this form, so that "bit for bit" has
// one meaning everywhere.
package val

import (
	"encoding/binary"
	"fmt"
	"hash/fnv"
	"math"
	"reflect"

	"gorgonia.org/tensor"
)

// DT is an ONNX TensorProto.DataType code.
type DT int32

const (
	Undefined DT = 0
	Float32   DT = 1
	Uint8     DT = 2
	Int8      DT = 3
	Uint16    DT = 4
	Int16     DT = 5
	Int32     DT = 6
	Int64     DT = 7
	String    DT = 8
	Bool      DT = 9
	Float16   DT = 10
	Float64   DT = 11
	Uint32    DT = 12
	Uint64    DT = 13
)

// Supported lists the 11 element types gonnx claims to decode.
var Supported = []DT{Float32, Float64, Int8, Int16, Int32, Int64, Uint8, Uint16, Uint32, Uint64, Bool}

func (d DT) String() string {
	switch d {
	case Float32:
		return "float32"
	case Float64:
		return "float64"
	case Int8:
		return "int8"
	case Int16:
		return "int16"
	case Int32:
		return "int32"
	case Int64:
		return "int64"
	case Uint8:
		return "uint8"
	case Uint16:
		return "uint16"
	case Uint32:
		return "uint32"
	case Uint64:
		return "uint64"
	case Bool:
		return "bool"
	}
	return fmt.Sprintf("dt%d", int32(d))
}

// Size is the width in bytes of one element in raw_data; 0 if unsupported.
func (d DT) Size() int {
	switch d {
	case Float32, Int32, Uint32:
		return 4
	case Float64, Int64, Uint64:
		return 8
	case Int16, Uint16:
		return 2
	case Int8, Uint8, Bool:
		return 1
	}
	return 0
}

// V is a tensor value. Bits holds the element bit patterns zero-extended to 64 bits
// (two's complement truncated to the element width for signed integers).
// Bad != "" marks a tensor whose header and storage disagree; it compares unequal to
// every consistent value (two inconsistent values are equal only if they are
// inconsistent in exactly the same way, bits included).
type V struct {
	DT    DT       `json:"dt"`
	Shape []int    `json:"shape"`
	Bits  []uint64 `json:"bits"`
	Bad   string   `json:"bad,omitempty"`
}

func NElems(shape []int) int {
	n := 1
	for _, s := range shape {
		n *= s
	}
	return n
}

func (v *V) Clone() *V {
	if v == nil {
		return nil
	}
	c := &V{DT: v.DT, Bad: v.Bad}
	c.Shape = append([]int{}, v.Shape...)
	c.Bits = append([]uint64{}, v.Bits...)
	return c
}

// Equal is bit-for-bit equality of element type, shape and every element.
func Equal(a, b *V) bool {
	if a == nil || b == nil {
		return a == b
	}
	if a.Bad != b.Bad {
		return false
	}
	if a.DT != b.DT || len(a.Shape) != len(b.Shape) || len(a.Bits) != len(b.Bits) {
		return false
	}
	for i := range a.Shape {
		if a.Shape[i] != b.Shape[i] {
			return false
		}
	}
	for i := range a.Bits {
		if a.Bits[i] != b.Bits[i] {
			return false
		}
	}
	return true
}

// Diff describes the first difference between two values (for reports).
func Diff(a, b *V) string {
	switch {
	case a == nil && b == nil:
		return ""
	case a == nil:
		return "first is nil"
	case b == nil:
		return "second is nil"
	case a.Bad != b.Bad:
		return "consistency differs: [" + a.Bad + "] vs [" + b.Bad + "]"
	case a.DT != b.DT:
		return fmt.Sprintf("dtype %v vs %v", a.DT, b.DT)
	case fmt.Sprint(a.Shape) != fmt.Sprint(b.Shape):
		return fmt.Sprintf("shape %v vs %v", a.Shape, b.Shape)
	}
	for i := range a.Bits {
		if i >= len(b.Bits) || a.Bits[i] != b.Bits[i] {
			return fmt.Sprintf("element %d: %#x vs %#x", i, a.Bits[i], b.Bits[i])
		}
	}
	return ""
}

func (v *V) Hash() uint64 {
	h := fnv.New64a()
	var b [8]byte
	w := func(x uint64) { binary.LittleEndian.PutUint64(b[:], x); h.Write(b[:]) }
	if v == nil {
		w(0xdead)
		return h.Sum64()
	}
	w(uint64(v.DT))
	w(uint64(len(v.Shape)))
	for _, s := range v.Shape {
		w(uint64(s))
	}
	for _, x := range v.Bits {
		w(x)
	}
	h.Write([]byte(v.Bad))
	return h.Sum64()
}

func (v *V) String() string {
	if v == nil {
		return "<nil>"
	}
	if v.Bad != "" {
		return "<inconsistent: " + v.Bad + ">"
	}
	n := len(v.Bits)
	if n > 8 {
		n = 8
	}
	return fmt.Sprintf("%v%v%x", v.DT, v.Shape, v.Bits[:n])
}

// Backing returns a freshly allocated Go slice of the element type holding v's elements.
func (v *V) Backing() interface{} {
	n := len(v.Bits)
	switch v.DT {
	case Float32:
		o := make([]float32, n)
		for i, b := range v.Bits {
			o[i] = math.Float32frombits(uint32(b))
		}
		return o
	case Float64:
		o := make([]float64, n)
		for i, b := range v.Bits {
			o[i] = math.Float64frombits(b)
		}
		return o
	case Int8:
		o := make([]int8, n)
		for i, b := range v.Bits {
			o[i] = int8(b)
		}
		return o
	case Int16:
		o := make([]int16, n)
		for i, b := range v.Bits {
			o[i] = int16(b)
		}
		return o
	case Int32:
		o := make([]int32, n)
		for i, b := range v.Bits {
			o[i] = int32(b)
		}
		return o
	case Int64:
		o := make([]int64, n)
		for i, b := range v.Bits {
			o[i] = int64(b)
		}
		return o
	case Uint8:
		o := make([]uint8, n)
		for i, b := range v.Bits {
			o[i] = uint8(b)
		}
		return o
	case Uint16:
		o := make([]uint16, n)
		for i, b := range v.Bits {
			o[i] = uint16(b)
		}
		return o
	case Uint32:
		o := make([]uint32, n)
		for i, b := range v.Bits {
			o[i] = uint32(b)
		}
		return o
	case Uint64:
		o := make([]uint64, n)
		copy(o, v.Bits)
		return o
	case Bool:
		o := make([]bool, n)
		for i, b := range v.Bits {
			o[i] = b != 0
		}
		return o
	}
	panic("val: no backing for " + v.DT.String())
}

// Tensor builds a brand-new gorgonia tensor object holding v (no storage shared with anything).
func (v *V) Tensor() tensor.Tensor {
	if len(v.Shape) == 0 {
		b := reflect.ValueOf(v.Backing())
		return tensor.New(tensor.FromScalar(b.Index(0).Interface()))
	}
	return tensor.New(tensor.WithShape(v.Shape...), tensor.WithBacking(v.Backing()))
}

func dtOf(d tensor.Dtype) DT {
	switch d {
	case tensor.Float32:
		return Float32
	case tensor.Float64:
		return Float64
	case tensor.Int8:
		return Int8
	case tensor.Int16:
		return Int16
	case tensor.Int32:
		return Int32
	case tensor.Int64:
		return Int64
	case tensor.Uint8:
		return Uint8
	case tensor.Uint16:
		return Uint16
	case tensor.Uint32:
		return Uint32
	case tensor.Uint64:
		return Uint64
	case tensor.Bool:
		return Bool
	case tensor.Int:
		return DT(-1)
	}
	return DT(-2)
}

func bitsOf(data interface{}) ([]uint64, bool) {
	switch d := data.(type) {
	case []float32:
		o := make([]uint64, len(d))
		for i, x := range d {
			o[i] = uint64(math.Float32bits(x))
		}
		return o, true
	case []float64:
		o := make([]uint64, len(d))
		for i, x := range d {
			o[i] = math.Float64bits(x)
		}
		return o, true
	case []int8:
		o := make([]uint64, len(d))
		for i, x := range d {
			o[i] = uint64(uint8(x))
		}
		return o, true
	case []int16:
		o := make([]uint64, len(d))
		for i, x := range d {
			o[i] = uint64(uint16(x))
		}
		return o, true
	case []int32:
		o := make([]uint64, len(d))
		for i, x := range d {
			o[i] = uint64(uint32(x))
		}
		return o, true
	case []int64:
		o := make([]uint64, len(d))
		for i, x := range d {
			o[i] = uint64(x)
		}
		return o, true
	case []int:
		o := make([]uint64, len(d))
		for i, x := range d {
			o[i] = uint64(x)
		}
		return o, true
	case []uint8:
		o := make([]uint64, len(d))
		for i, x := range d {
			o[i] = uint64(x)
		}
		return o, true
	case []uint16:
		o := make([]uint64, len(d))
		for i, x := range d {
			o[i] = uint64(x)
		}
		return o, true
	case []uint32:
		o := make([]uint64, len(d))
		for i, x := range d {
			o[i] = uint64(x)
		}
		return o, true
	case []uint64:
		o := make([]uint64, len(d))
		copy(o, d)
		return o, true
	case []bool:
		o := make([]uint64, len(d))
		for i, x := range d {
			if x {
				o[i] = 1
			}
		}
		return o, true
	}
	// scalar (type switch first: reflect's Float() widens float32 to float64, which quiets signalling NaNs)
	switch d := data.(type) {
	case float32:
		return []uint64{uint64(math.Float32bits(d))}, true
	case float64:
		return []uint64{math.Float64bits(d)}, true
	}
	rv := reflect.ValueOf(data)
	if !rv.IsValid() {
		return nil, false
	}
	switch rv.Kind() {
	case reflect.Float32:
		return []uint64{uint64(math.Float32bits(float32(rv.Float())))}, true
	case reflect.Float64:
		return []uint64{math.Float64bits(rv.Float())}, true
	case reflect.Int8, reflect.Int16, reflect.Int32, reflect.Int64, reflect.Int:
		bits := uint64(rv.Int())
		switch rv.Kind() {
		case reflect.Int8:
			bits &= 0xff
		case reflect.Int16:
			bits &= 0xffff
		case reflect.Int32:
			bits &= 0xffffffff
		}
		return []uint64{bits}, true
	case reflect.Uint8, reflect.Uint16, reflect.Uint32, reflect.Uint64, reflect.Uint:
		return []uint64{rv.Uint()}, true
	case reflect.Bool:
		if rv.Bool() {
			return []uint64{1}, true
		}
		return []uint64{0}, true
	}
	return nil, false
}

// Snap takes the logical snapshot of a tensor without modifying it. A nil tensor
// gives nil. Any internal inconsistency (shape does not cover the storage, a panic
// while iterating) is recorded in Bad instead of propagating.
func Snap(t tensor.Tensor) (out *V) {
	if t == nil || (reflect.ValueOf(t).Kind() == reflect.Ptr && reflect.ValueOf(t).IsNil()) {
		return nil
	}
	out = &V{}
	defer func() {
		if r := recover(); r != nil {
			out = &V{Bad: fmt.Sprintf("panic while reading tensor: %v", r)}
		}
	}()
	out.DT = dtOf(t.Dtype())
	out.Shape = append([]int{}, t.Shape()...)
	var data interface{}
	if d, ok := t.(*tensor.Dense); ok && d.RequiresIterator() {
		m := d.Materialize()
		data = m.Data()
	} else {
		data = t.Data()
	}
	bits, ok := bitsOf(data)
	if !ok {
		out.Bad = fmt.Sprintf("unsupported storage %T", data)
		return out
	}
	out.Bits = bits
	want := NElems(out.Shape)
	if len(bits) != want {
		out.Bad = fmt.Sprintf("shape %v declares %d elements, storage holds %d", out.Shape, want, len(bits))
	}
	for _, s := range out.Shape {
		if s < 0 {
			out.Bad = fmt.Sprintf("negative extent in shape %v", out.Shape)
		}
	}
	return out
}

// Snap32 / Snap64 return the bit patterns of float slices.
func Snap32(d []float32) []uint64 { b, _ := bitsOf(d); return b }
func Snap64(d []float64) []uint64 { b, _ := bitsOf(d); return b }
