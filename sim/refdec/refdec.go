// Package refdec is an independent reference decoder for ONNX TensorProto
// payloads, written from the ONNX specification (onnx.proto3 comments), not from
// gonnx's decoder. It classifies a stored tensor and, when the tensor is
// well-formed, says exactly which value it declares.
package refdec

import (
	"encoding/binary"
	"fmt"

	"github.com/advancedclimatesystems/gonnx/onnx"

	"verifsim/val"
)

type Class int

const (
	// WellFormed: supported element type, non-negative extents, exactly one encoding
	// populated, element count equal to the product of the extents.
	WellFormed Class = iota
	// Malformed: element count does not match the declared shape (or negative extent).
	Malformed
	// Unrepresentable: an element type outside the 11 supported ones.
	Unrepresentable
	// Unspecified: the ONNX spec does not say what the tensor means (both encodings
	// populated, external/segmented data, zero extents, non-canonical carrier values);
	// nothing beyond "no panic" is demanded.
	Unspecified
)

func (c Class) String() string {
	return [...]string{"wellformed", "malformed", "unrepresentable", "unspecified"}[c]
}

func supported(dt val.DT) bool {
	for _, s := range val.Supported {
		if s == dt {
			return true
		}
	}
	return false
}

// TypedLens: (elements in the declared type's own typed field, elements in all other typed fields).
func TypedLens(tp *onnx.TensorProto) (own, other int) { return typedLens(tp, val.DT(tp.DataType)) }

// typedLen returns the number of elements in the typed field ONNX assigns to dt, and the
// count of elements in all other typed fields.
func typedLens(tp *onnx.TensorProto, dt val.DT) (own int, other int) {
	f, i32, i64, d, u64 := len(tp.FloatData), len(tp.Int32Data), len(tp.Int64Data), len(tp.DoubleData), len(tp.Uint64Data)
	s := len(tp.StringData)
	total := f + i32 + i64 + d + u64 + s
	switch dt {
	case val.Float32:
		own = f
	case val.Float64:
		own = d
	case val.Int64:
		own = i64
	case val.Uint64, val.Uint32:
		own = u64
	case val.Int32, val.Int16, val.Int8, val.Uint16, val.Uint8, val.Bool:
		own = i32
	}
	return own, total - own
}

// Decode classifies tp and returns the declared value when it is well-formed.
// why explains the classification.
func Decode(tp *onnx.TensorProto) (v *val.V, c Class, why string) {
	if tp == nil {
		return nil, Unspecified, "nil tensor"
	}
	dt := val.DT(tp.DataType)
	// external_data entries only mean something when data_location is EXTERNAL (onnx.proto: "external_data ...
	// MUST be set only when data_location = EXTERNAL" is a producer rule; a consumer looks at data_location); a
	// tensor whose payload is inline keeps its inline value whatever is left over in that list
	if tp.DataLocation != onnx.TensorProto_DEFAULT || tp.Segment != nil {
		return nil, Unspecified, "external or segmented data"
	}
	if !supported(dt) {
		return nil, Unrepresentable, fmt.Sprintf("data_type %d", tp.DataType)
	}
	shape := make([]int, len(tp.Dims))
	n := 1
	zero := false
	for i, d := range tp.Dims {
		if d < 0 {
			return nil, Malformed, fmt.Sprintf("negative extent %d", d)
		}
		if d == 0 {
			zero = true
		}
		shape[i] = int(d)
		// saturating product: an element count beyond 2^40 can never match a payload that fits in memory
		if d > 0 && n > (1<<40)/int(d) {
			n = 1 << 40
		} else {
			n *= int(d)
		}
	}
	if n >= 1<<40 && !zero {
		return nil, Malformed, fmt.Sprintf("shape declares more than 2^40 elements, payload cannot match")
	}
	own, other := typedLens(tp, dt)
	raw := len(tp.RawData)
	if other > 0 {
		if own == 0 && raw == 0 && !zero {
			// nothing at all is stored for the declared element type (onnx.proto ties every typed field to its element
			// types: double_data "MUST be DOUBLE or COMPLEX128", ...): the declared payload holds 0 of n elements.
			// Reading the values of another type's field instead is "loaded as different values".
			return nil, Malformed, "payload-in-foreign-field: no payload for the declared element type, values only in a typed field of another type"
		}
		return nil, Unspecified, "a typed field of another element type is populated"
	}
	if own > 0 && raw > 0 {
		return nil, Unspecified, "both typed field and raw_data populated"
	}
	if zero {
		if own == 0 && raw == 0 {
			return nil, Unspecified, "zero extent (empty tensor)"
		}
		return nil, Malformed, "zero extent with payload"
	}
	out := &val.V{DT: dt, Shape: shape}
	if own > 0 {
		if own != n {
			return nil, Malformed, fmt.Sprintf("typed field holds %d elements, shape declares %d", own, n)
		}
		out.Bits = make([]uint64, n)
		switch dt {
		case val.Float32:
			tmp := val.Snap32(tp.FloatData)
			copy(out.Bits, tmp)
		case val.Float64:
			tmp := val.Snap64(tp.DoubleData)
			copy(out.Bits, tmp)
		case val.Int64:
			for i, x := range tp.Int64Data {
				out.Bits[i] = uint64(x)
			}
		case val.Uint64:
			copy(out.Bits, tp.Uint64Data)
		case val.Uint32:
			for i, x := range tp.Uint64Data {
				if x > 0xffffffff {
					return nil, Unspecified, "uint32 carrier value out of range"
				}
				out.Bits[i] = x
			}
		case val.Int32:
			for i, x := range tp.Int32Data {
				out.Bits[i] = uint64(uint32(x))
			}
		case val.Int16:
			for i, x := range tp.Int32Data {
				if x < -32768 || x > 32767 {
					return nil, Unspecified, "int16 carrier value out of range"
				}
				out.Bits[i] = uint64(uint16(x))
			}
		case val.Int8:
			for i, x := range tp.Int32Data {
				if x < -128 || x > 127 {
					return nil, Unspecified, "int8 carrier value out of range"
				}
				out.Bits[i] = uint64(uint8(x))
			}
		case val.Uint16:
			for i, x := range tp.Int32Data {
				if x < 0 || x > 65535 {
					return nil, Unspecified, "uint16 carrier value out of range"
				}
				out.Bits[i] = uint64(x)
			}
		case val.Uint8:
			for i, x := range tp.Int32Data {
				if x < 0 || x > 255 {
					return nil, Unspecified, "uint8 carrier value out of range"
				}
				out.Bits[i] = uint64(x)
			}
		case val.Bool:
			for i, x := range tp.Int32Data {
				if x != 0 && x != 1 {
					return nil, Unspecified, "bool carrier value not 0/1"
				}
				out.Bits[i] = uint64(x)
			}
		}
		return out, WellFormed, "typed"
	}
	// raw encoding (or nothing at all)
	sz := dt.Size()
	if raw != n*sz {
		return nil, Malformed, fmt.Sprintf("raw_data holds %d bytes, shape declares %d x %d", raw, n, sz)
	}
	out.Bits = make([]uint64, n)
	for i := 0; i < n; i++ {
		var b [8]byte
		copy(b[:], tp.RawData[i*sz:(i+1)*sz])
		out.Bits[i] = binary.LittleEndian.Uint64(b[:])
		if dt == val.Bool && out.Bits[i] > 1 {
			return nil, Unspecified, "raw bool byte not 0/1"
		}
	}
	return out, WellFormed, "raw"
}
